// Package c12: RAG chunks cover the document once, in order, with true metadata.
//
// Generator: random model.Document values (gen.go), every content unit carries
// unique tokens. Oracle: ref/chunkmodel (flat unit list, level-keyed heading
// stack). Observed: rag.ChunkDocument / ChunkDocumentWithConfig (element
// walk) and rag.NewChunker(WithConfig).Chunk (layout view).
package c12

import (
	"fmt"
	"math/rand"
	"sort"
	"strings"

	"github.com/tsawler/tabula/model"
	"github.com/tsawler/tabula/rag"

	"verifharness/fw"
	cm "verifharness/ref/chunkmodel"
)

type sizePreset struct {
	name string
	cfg  func(r *rand.Rand) rag.SizeConfig
}

var sizePresets = []sizePreset{
	{"default", func(*rand.Rand) rag.SizeConfig { return rag.DefaultSizeConfig() }},
	{"small", func(*rand.Rand) rag.SizeConfig { return rag.SmallChunkConfig() }},
	{"medium", func(*rand.Rand) rag.SizeConfig { return rag.MediumChunkConfig() }},
	{"large", func(*rand.Rand) rag.SizeConfig { return rag.LargeChunkConfig() }},
	{"openai", func(*rand.Rand) rag.SizeConfig { return rag.OpenAIEmbeddingConfig() }},
	{"cohere", func(*rand.Rand) rag.SizeConfig { return rag.CohereEmbeddingConfig() }},
	{"claude", func(*rand.Rand) rag.SizeConfig { return rag.ClaudeContextConfig() }},
	{"tokens", func(r *rand.Rand) rag.SizeConfig {
		t := 50 + r.Intn(400)
		return rag.TokenBasedSizeConfig(t, t+r.Intn(400))
	}},
	{"semantic", func(r *rand.Rand) rag.SizeConfig {
		t := 1 + r.Intn(3)
		return rag.SemanticSizeConfig(t, t+r.Intn(4))
	}},
	{"chars-random", func(r *rand.Rand) rag.SizeConfig {
		c := rag.DefaultSizeConfig()
		c.Max.Value = 200 + r.Intn(3000)
		c.Target.Value = c.Max.Value / 2
		c.Min.Value = r.Intn(100)
		c.SplitAtSemanticBoundaries = r.Intn(2) == 0
		return c
	}},
	{"words-random", func(r *rand.Rand) rag.SizeConfig {
		c := rag.DefaultSizeConfig()
		c.Max = rag.SizeLimit{Value: 40 + r.Intn(400), Unit: rag.SizeUnitWords, Type: rag.LimitTypeHard}
		c.Target = rag.SizeLimit{Value: c.Max.Value / 2, Unit: rag.SizeUnitWords}
		return c
	}},
	{"sentences-random", func(r *rand.Rand) rag.SizeConfig {
		c := rag.DefaultSizeConfig()
		c.Max = rag.SizeLimit{Value: 2 + r.Intn(20), Unit: rag.SizeUnitSentences, Type: rag.LimitTypeHard}
		c.Target = rag.SizeLimit{Value: 2, Unit: rag.SizeUnitSentences}
		return c
	}},
}

func maxBytesOf(sc rag.SizeConfig) int {
	switch sc.Max.Unit {
	case rag.SizeUnitTokens:
		return sc.Max.Value * 4
	case rag.SizeUnitWords:
		return sc.Max.Value * 6
	case rag.SizeUnitSentences:
		return sc.Max.Value * 80
	case rag.SizeUnitParagraphs:
		return 2000
	}
	return sc.Max.Value
}

type tokRef struct {
	unit int
	pos  int // index of the token inside the unit
}

type outcome struct {
	class  string
	what   string
	detail map[string]any
}

var tableRelax = strings.NewReplacer(`\|`, "|", "&#124;", "|", "<br>", "", "<br/>", "", "<br/>", "")

func short(s string) string { return fw.OneLine(s, 160) }

func chunkDump(chunks []*rag.Chunk) []map[string]any {
	var out []map[string]any
	for i, ch := range chunks {
		if i >= 40 {
			out = append(out, map[string]any{"more": len(chunks) - i})
			break
		}
		if ch == nil {
			out = append(out, map[string]any{"nil": true})
			continue
		}
		out = append(out, map[string]any{"i": i, "id": ch.ID, "index": ch.Metadata.ChunkIndex, "total": ch.Metadata.TotalChunks,
			"pages": fmt.Sprintf("%d-%d", ch.Metadata.PageStart, ch.Metadata.PageEnd), "path": ch.Metadata.SectionPath, "text": short(ch.Text)})
	}
	return out
}

func unitDump(units []cm.Unit) []map[string]any {
	var out []map[string]any
	for i, u := range units {
		if i >= 60 {
			out = append(out, map[string]any{"more": len(units) - i})
			break
		}
		m := map[string]any{"kind": u.Kind.String(), "page": u.Page, "tokens": len(u.Tokens), "chain": u.ChainIn}
		if u.Kind == cm.Heading {
			m["level"] = u.Level
			m["text"] = u.Text
		} else if len(u.Tokens) > 0 {
			m["first"] = u.Tokens[0]
		}
		out = append(out, m)
	}
	return out
}

// checkNumbering: indices 0..n-1 in order, unique IDs, every chunk reports n.
func checkNumbering(chunks []*rag.Chunk) *outcome {
	n := len(chunks)
	ids := map[string]int{}
	for i, ch := range chunks {
		if ch == nil {
			return &outcome{"nil-chunk", fmt.Sprintf("chunk %d of %d is nil", i, n), nil}
		}
		if ch.Metadata.ChunkIndex != i {
			return &outcome{"index", fmt.Sprintf("chunk at position %d reports ChunkIndex %d", i, ch.Metadata.ChunkIndex), nil}
		}
		if j, dup := ids[ch.ID]; dup {
			return &outcome{"duplicate-id", fmt.Sprintf("chunks %d and %d share ID %q", j, i, ch.ID), nil}
		}
		ids[ch.ID] = i
		if ch.Metadata.TotalChunks != n {
			return &outcome{"total", fmt.Sprintf("chunk %d reports TotalChunks %d, there are %d chunks", i, ch.Metadata.TotalChunks, n), nil}
		}
	}
	return nil
}

func concatTexts(chunks []*rag.Chunk) string {
	var sb strings.Builder
	for _, ch := range chunks {
		sb.WriteString(ch.Text)
		sb.WriteString("\n")
	}
	return cm.Squeeze(sb.String())
}

func tokenIndex(units []cm.Unit) map[string]tokRef {
	m := map[string]tokRef{}
	for ui, u := range units {
		for ti, t := range u.Tokens {
			m[t] = tokRef{ui, ti}
		}
	}
	return m
}

// checkElementView is the oracle for the element-walking DocumentChunker:
// total order.
func checkElementView(units []cm.Unit, chunks []*rag.Chunk, c *fw.Ctx) *outcome {
	if o := checkNumbering(chunks); o != nil {
		return o
	}
	sq := concatTexts(chunks)
	got := fw.FindTokens(sq)
	var want []string
	for _, u := range units {
		want = append(want, u.Tokens...)
	}
	c.Count("tokens_traced", int64(len(want)))
	idx := tokenIndex(units)
	if o := compareSequences(want, got, idx, units); o != nil {
		return o
	}
	// white-space-free containment of every part (covers the filler words too).
	// Table cells are rendered as a Markdown table: a renderer may escape '|'
	// and replace a line break inside a cell, which is not a loss of content.
	sqTable := tableRelax.Replace(sq)
	for _, u := range units {
		for _, p := range u.Parts {
			s := cm.Squeeze(p)
			if u.Kind == cm.Table && strings.Contains(sqTable, tableRelax.Replace(s)) {
				continue
			}
			if s != "" && !strings.Contains(sq, s) {
				return &outcome{"part-missing/" + u.Kind.String(), fmt.Sprintf("%s on page %d: its text %q is not contained (white space aside) in the concatenated chunk texts", u.Kind, u.Page, short(p)), nil}
			}
		}
		c.Count("parts_compared", int64(len(u.Parts)))
	}
	// metadata per chunk
	for i, ch := range chunks {
		toks := fw.FindTokens(cm.Squeeze(ch.Text))
		if ch.Metadata.PageStart > ch.Metadata.PageEnd {
			return &outcome{"page-range-inverted", fmt.Sprintf("chunk %d page range %d-%d is inverted", i, ch.Metadata.PageStart, ch.Metadata.PageEnd), nil}
		}
		if len(toks) == 0 {
			continue
		}
		lo, hi := 1<<30, -1
		seen := map[int]bool{}
		for _, t := range toks {
			ref, ok := idx[t]
			if !ok || seen[ref.unit] {
				continue
			}
			seen[ref.unit] = true
			u := units[ref.unit]
			if u.Page < lo {
				lo = u.Page
			}
			if u.Page > hi {
				hi = u.Page
			}
			path := ch.Metadata.SectionPath
			okPath := cm.SameChain(path, u.Chain)
			if u.Kind == cm.Heading { // a heading's own chunk may or may not count the heading itself
				okPath = okPath || cm.SameChain(path, u.ChainIn)
			}
			if !okPath {
				return &outcome{"section-path/" + u.Kind.String(), fmt.Sprintf("chunk %d (%s %q…) reports section path %q, the enclosing headings are %q", i, u.Kind, short(ch.Text[:min(len(ch.Text), 40)]), path, u.ChainIn), nil}
			}
			c.Count("paths_compared", 1)
		}
		if hi >= 0 && (ch.Metadata.PageStart < lo || ch.Metadata.PageEnd > hi) {
			return &outcome{"page-range", fmt.Sprintf("chunk %d reports pages %d-%d, its content came from page(s) %d-%d", i, ch.Metadata.PageStart, ch.Metadata.PageEnd, lo, hi), nil}
		}
		c.Count("page_ranges_compared", 1)
	}
	return nil
}

// compareSequences demands got == want (every token exactly once, in order)
// and names the first difference.
func compareSequences(want, got []string, idx map[string]tokRef, units []cm.Unit) *outcome {
	cnt := map[string]int{}
	for _, t := range got {
		cnt[t]++
	}
	for _, t := range want {
		if cnt[t] == 0 {
			u := units[idx[t].unit]
			return &outcome{"lost/" + u.Kind.String(), fmt.Sprintf("token %s of a %s on page %d (enclosing headings %q) is in no chunk text", t, u.Kind, u.Page, u.ChainIn), nil}
		}
	}
	for _, t := range got {
		if _, ok := idx[t]; !ok {
			return &outcome{"invented", fmt.Sprintf("token %s occurs in the chunks but not in the document", t), nil}
		}
		if cnt[t] > 1 {
			u := units[idx[t].unit]
			return &outcome{"repeated/" + u.Kind.String(), fmt.Sprintf("token %s of a %s on page %d occurs %d times in the chunk texts", t, u.Kind, u.Page, cnt[t]), nil}
		}
	}
	for i := range want {
		if i >= len(got) || want[i] != got[i] {
			g := "<end>"
			if i < len(got) {
				g = got[i]
			}
			u := units[idx[want[i]].unit]
			return &outcome{"order/" + u.Kind.String(), fmt.Sprintf("token #%d in chunk order is %s, document order has %s (%s on page %d)", i, g, want[i], u.Kind, u.Page), nil}
		}
	}
	return nil
}

// checkLayoutView is the oracle for the layout-based Chunker. The layout
// lists have no cross-kind order on a page, so (weakest reading, DESIGN §5):
// order is asserted within each kind and across pages only; a heading is
// covered if it is in some chunk's Text or SectionPath; a chunk's path must
// be one of the chains its content may truthfully have; its page range must
// be ordered, inside the document and meet a page of its content.
func checkLayoutView(units []cm.Unit, chunks []*rag.Chunk, pages []int, c *fw.Ctx) *outcome {
	if o := checkNumbering(chunks); o != nil {
		return o
	}
	sq := concatTexts(chunks)
	got := fw.FindTokens(sq)
	idx := tokenIndex(units)
	cnt := map[string]int{}
	for _, t := range got {
		cnt[t]++
	}
	inPath := map[string]bool{}
	for _, ch := range chunks {
		for _, s := range ch.Metadata.SectionPath {
			inPath[cm.Squeeze(s)] = true
		}
	}
	ntok := 0
	for _, u := range units {
		ntok += len(u.Tokens)
		for _, t := range u.Tokens {
			switch {
			case cnt[t] > 1:
				return &outcome{"repeated/" + u.Kind.String(), fmt.Sprintf("token %s of a %s on page %d occurs %d times in the chunk texts", t, u.Kind, u.Page, cnt[t]), nil}
			case cnt[t] == 0 && u.Kind == cm.Heading && inPath[cm.Squeeze(u.Text)]:
				// covered by a section path
			case cnt[t] == 0:
				return &outcome{"lost/" + u.Kind.String(), fmt.Sprintf("token %s of a %s on page %d (enclosing headings %q) is in no chunk text%s", t, u.Kind, u.Page, u.ChainIn,
					map[bool]string{true: " and the heading is in no section path", false: ""}[u.Kind == cm.Heading]), nil}
			}
		}
		if u.Kind != cm.Heading {
			for _, p := range u.Parts {
				s := cm.Squeeze(p)
				if s != "" && !strings.Contains(sq, s) {
					return &outcome{"part-missing/" + u.Kind.String(), fmt.Sprintf("%s on page %d: its text %q is not contained (white space aside) in the concatenated chunk texts", u.Kind, u.Page, short(p)), nil}
				}
			}
		}
	}
	c.Count("tokens_traced", int64(ntok))
	// order: per kind the chunk order must be the document order; across
	// pages the page index must not decrease.
	last := map[cm.Kind][3]int{}
	lastPage := -1
	for i, t := range got {
		ref, ok := idx[t]
		if !ok {
			return &outcome{"invented", fmt.Sprintf("token %s occurs in the chunks but not in the document", t), nil}
		}
		u := units[ref.unit]
		key := [3]int{u.PageIdx, u.Elem, ref.pos}
		if prev, ok := last[u.Kind]; ok && !(prev[0] < key[0] || prev[0] == key[0] && (prev[1] < key[1] || prev[1] == key[1] && prev[2] < key[2])) {
			return &outcome{"order/" + u.Kind.String(), fmt.Sprintf("token #%d (%s, %s %d of page %d) comes after a later %s in chunk order", i, t, u.Kind, u.Elem, u.Page, u.Kind), nil}
		}
		last[u.Kind] = key
		if u.PageIdx < lastPage {
			return &outcome{"order/pages", fmt.Sprintf("token #%d (%s, %s of page %d) comes after content of a later page", i, t, u.Kind, u.Page), nil}
		}
		lastPage = u.PageIdx
	}
	minPage, maxPage := 1<<30, -1
	for _, p := range pages {
		if p < minPage {
			minPage = p
		}
		if p > maxPage {
			maxPage = p
		}
	}
	for i, ch := range chunks {
		md := ch.Metadata
		if md.PageStart > md.PageEnd {
			return &outcome{"page-range-inverted", fmt.Sprintf("chunk %d page range %d-%d is inverted", i, md.PageStart, md.PageEnd), nil}
		}
		toks := fw.FindTokens(cm.Squeeze(ch.Text))
		if len(toks) == 0 {
			continue
		}
		if md.PageStart < minPage || md.PageEnd > maxPage {
			return &outcome{"page-range-outside", fmt.Sprintf("chunk %d reports pages %d-%d, the document has pages %v", i, md.PageStart, md.PageEnd, pages), nil}
		}
		meets := false
		var from []int
		seen := map[int]bool{}
		for _, t := range toks {
			ref, ok := idx[t]
			if !ok || seen[ref.unit] {
				continue
			}
			seen[ref.unit] = true
			u := units[ref.unit]
			from = append(from, u.Page)
			if u.Page >= md.PageStart && u.Page <= md.PageEnd {
				meets = true
			}
			if !cm.InChains(md.SectionPath, u.Allowed) {
				return &outcome{"section-path/" + u.Kind.String(), fmt.Sprintf("chunk %d contains a %s of page %d and reports section path %q; possible enclosing chains are %q", i, u.Kind, u.Page, md.SectionPath, u.Allowed), nil}
			}
			c.Count("paths_compared", 1)
		}
		if !meets {
			sort.Ints(from)
			return &outcome{"page-range", fmt.Sprintf("chunk %d reports pages %d-%d, its content came from pages %v", i, md.PageStart, md.PageEnd, from), nil}
		}
		c.Count("page_ranges_compared", 1)
	}
	return nil
}

func randChunkerConfig(r *rand.Rand) (rag.ChunkerConfig, string) {
	cfg := rag.DefaultChunkerConfig()
	switch r.Intn(4) {
	case 0:
		return cfg, "default"
	case 1:
		cfg.MaxChunkSize = 200 + r.Intn(800)
	case 2:
		cfg.MaxChunkSize = 1000 + r.Intn(3000)
	case 3:
		cfg.MaxChunkSize = 100 + r.Intn(200)
	}
	cfg.TargetChunkSize = cfg.MaxChunkSize / 2
	cfg.MinChunkSize = []int{0, 20, 100, cfg.MaxChunkSize / 4}[r.Intn(4)]
	cfg.MinHeadingLevel = []int{0, 1, 2, 3, 3, 4, 6}[r.Intn(7)]
	cfg.PreserveListCoherence = r.Intn(3) > 0
	cfg.PreserveTableCoherence = r.Intn(2) == 0
	cfg.PreserveParagraphs = r.Intn(2) == 0
	cfg.IDPrefix = []string{"chunk", "c", "doc-7"}[r.Intn(3)]
	return cfg, fmt.Sprintf("max=%d,min=%d,hl=%d,lists=%v,prefix=%s", cfg.MaxChunkSize, cfg.MinChunkSize, cfg.MinHeadingLevel, cfg.PreserveListCoherence, cfg.IDPrefix)
}

func setPages(units []cm.Unit, numbers []int) {
	for i := range units {
		units[i].Page = numbers[units[i].PageIdx]
	}
}

func nontrivial(info *genInfo) bool {
	others := 0
	for _, k := range []string{"paragraph", "list", "table", "image"} {
		if info.Kinds[k] > 0 {
			others++
		}
	}
	return info.Headings >= 2 && len(info.Levels) >= 2 && others >= 2
}

func specFor(r *rand.Rand, clean bool) docSpec {
	spec := docSpec{
		Flavour:   []string{"elements", "both", "both", "likepara"}[r.Intn(4)],
		Numbering: []string{"addpage", "addpage", "addpage-preset", "append-preset"}[r.Intn(4)],
		Pages:     1 + r.Intn(5),
	}
	if r.Intn(12) == 0 {
		spec.NoHeadings = true
	}
	spec.DeepLevels = r.Intn(4) == 0
	return spec
}

func runCase(c *fw.Ctx, i int) {
	id := fmt.Sprintf("doc:%d", i)
	if !c.Want(id) {
		return
	}
	r := c.Rand("doc", i)
	spec := specFor(r, false)
	// size configuration first: paragraphs go up to 5x the maximum chunk size
	pr := sizePresets[c.Rand("doc", i, "size").Intn(len(sizePresets))]
	sc := pr.cfg(c.Rand("doc", i, "sizecfg"))
	ccfg, ccfgDesc := randChunkerConfig(c.Rand("doc", i, "chunker"))
	mb := maxBytesOf(sc)
	if mb > 4000 {
		mb = 4000 // keeps the quick tier quick; presets with 32 kB limits just never split
	}
	spec.MaxPara = 5 * mb
	if i%3 == 0 {
		spec.MaxPara = 5 * ccfg.MaxChunkSize
	}
	doc, info := buildDoc(c.Rand("doc", i, "content"), spec)
	desc := fmt.Sprintf("%s|%s|%s|%d", describe(spec, info), pr.name, ccfgDesc, i)
	c.Case(desc, nontrivial(info))
	for f := range info.Features {
		c.Seen("doc_feature", f)
	}
	for l := range info.Levels {
		c.Seen("heading_level", fmt.Sprint(l))
	}
	c.Seen("size_preset", pr.name)
	c.Seen("size_unit", sc.Max.Unit.String())
	c.Seen("min_heading_level", fmt.Sprint(ccfg.MinHeadingLevel))
	if i < 4 {
		c.Sample(map[string]any{"id": id, "spec": desc, "pages": info.Numbers, "kinds": info.Kinds})
	}

	elemUnits := cm.FlattenElements(doc)
	setPages(elemUnits, info.Numbers)
	base := map[string]any{"spec": desc, "page_numbers": info.Numbers, "size_config": fmt.Sprintf("%+v", sc)}

	report := func(entry string, o *outcome, units []cm.Unit, chunks []*rag.Chunk) {
		if o == nil {
			return
		}
		d := map[string]any{"entry": entry, "units": unitDump(units), "chunks": chunkDump(chunks)}
		for k, v := range base {
			d[k] = v
		}
		c.Fail("", entry+"/"+o.class, id, entry+": "+o.what, d)
	}

	// (1) element walk, default configuration
	c.Guard("ChunkDocument", id, base, func() {
		col := rag.ChunkDocument(doc)
		c.Count("chunks_checked", int64(len(col.Chunks)))
		report("ChunkDocument", checkElementView(elemUnits, col.Chunks, c), elemUnits, col.Chunks)
	})
	// (2) element walk, size configuration / preset
	c.Guard("ChunkDocumentWithConfig", id, base, func() {
		col := rag.ChunkDocumentWithConfig(doc, ccfg, sc)
		c.Count("chunks_checked", int64(len(col.Chunks)))
		report("ChunkDocumentWithConfig", checkElementView(elemUnits, col.Chunks, c), elemUnits, col.Chunks)
	})
	// (2b) a chunker value reused for several documents: the second document's
	// chunks must not depend on the first (section path, indices, ids)
	if i%2 == 0 {
		c.Guard("DocumentChunker.reuse", id, base, func() {
			pspec := specFor(c.Rand("doc", i, "prevspec"), false)
			pspec.MaxPara = 400
			prev, _ := buildDoc(c.Rand("doc", i, "prevcontent"), pspec)
			dc := rag.NewDocumentChunkerWithConfig(ccfg, sc)
			if i%4 == 0 {
				dc = rag.NewDocumentChunker()
			}
			dc.ChunkDocument(prev)
			col := dc.ChunkDocument(doc)
			c.Count("chunks_checked", int64(len(col.Chunks)))
			c.Count("reused_chunker_runs", 1)
			report("DocumentChunker(reused).ChunkDocument", checkElementView(elemUnits, col.Chunks, c), elemUnits, col.Chunks)
		})
	}
	// (2c) the same, after a hostile earlier document: every paragraph text of this document
	// appears in the earlier one, on the same page number, as an outline heading — anything a
	// chunker value remembers by text or page from the earlier document would show here
	if i%2 == 0 {
		c.Guard("DocumentChunker.reuse-after-lookalike", id, base, func() {
			prev := &model.Document{}
			for _, pg := range doc.Pages {
				np := &model.Page{Number: pg.Number, Width: pg.Width, Height: pg.Height, Layout: &model.PageLayout{}}
				for _, el := range pg.Elements {
					if para, ok := el.(*model.Paragraph); ok && para.Text != "" {
						np.Layout.Headings = append(np.Layout.Headings, model.HeadingInfo{Level: 1 + len(np.Layout.Headings)%3, Text: para.Text, Confidence: 1})
						np.Elements = append(np.Elements, &model.Paragraph{Text: para.Text})
					}
				}
				prev.Pages = append(prev.Pages, np)
			}
			dc := rag.NewDocumentChunkerWithConfig(ccfg, sc)
			if i%4 == 0 {
				dc = rag.NewDocumentChunker()
			}
			dc.ChunkDocument(prev)
			col := dc.ChunkDocument(doc)
			c.Count("chunks_checked", int64(len(col.Chunks)))
			c.Count("reused_chunker_runs_after_lookalike", 1)
			report("DocumentChunker(reused after look-alike).ChunkDocument", checkElementView(elemUnits, col.Chunks, c), elemUnits, col.Chunks)
		})
	}
	// (3) layout view
	if spec.Flavour != "elements" {
		c.Guard("Chunker.Chunk", id, base, func() {
			lu := cm.FlattenLayout(doc, rag.DefaultChunkerConfig().MinHeadingLevel)
			setPages(lu, info.Numbers)
			res, err := rag.NewChunker().Chunk(doc)
			if err != nil {
				c.Fail("", "Chunker.Chunk/error", id, "NewChunker().Chunk: "+err.Error(), base)
				return
			}
			c.Count("chunks_checked", int64(len(res.Chunks)))
			report("NewChunker.Chunk", checkLayoutView(lu, res.Chunks, info.Numbers, c), lu, res.Chunks)
			if i%2 == 1 { // the same Chunker value used again after another document
				pspec := specFor(c.Rand("doc", i, "prevspec"), false)
				pspec.MaxPara = 400
				if pspec.Flavour == "elements" {
					pspec.Flavour = "both"
				}
				if i%4 == 1 {
					pspec.NoHeadings = true // ends outside any section, where the next document begins
				}
				prev, _ := buildDoc(c.Rand("doc", i, "prevcontent"), pspec)
				ck := rag.NewChunker()
				ck.Chunk(prev)
				res2, err := ck.Chunk(doc)
				if err == nil {
					c.Count("reused_chunker_runs", 1)
					report("NewChunker(reused).Chunk", checkLayoutView(lu, res2.Chunks, info.Numbers, c), lu, res2.Chunks)
				}
			}
		})
		c.Guard("ChunkerWithConfig.Chunk", id, base, func() {
			lu := cm.FlattenLayout(doc, ccfg.MinHeadingLevel)
			setPages(lu, info.Numbers)
			res, err := rag.NewChunkerWithConfig(ccfg).Chunk(doc)
			if err != nil {
				c.Fail("", "ChunkerWithConfig.Chunk/error", id, "NewChunkerWithConfig().Chunk: "+err.Error(), base)
				return
			}
			c.Count("chunks_checked", int64(len(res.Chunks)))
			report("NewChunkerWithConfig.Chunk", checkLayoutView(lu, res.Chunks, info.Numbers, c), lu, res.Chunks)
		})
	}
}

// Run is the C12 check.
func Run(c *fw.Ctx) {
	c.Rule("case = (generated model.Document, size preset/configuration, chunker configuration); non-trivial iff the document has >= 2 headings of different levels and elements of >= 2 other kinds; distinct by hash of the descriptor")
	c.Assume("a Paragraph element whose trimmed text equals a layout heading of the same page number is a heading of that level (the only place the model says so)",
		"layout-based Chunker: Page.Layout lists carry no cross-kind order, so order is asserted per kind and across pages; a heading is covered if it is in a chunk Text or SectionPath; only headings up to MinHeadingLevel open a section; tables and images do not exist in the layout view",
		"a heading's own chunk may report its path with or without the heading itself",
		"page truth = the number the generator gave the page (preset Page.Number, else insertion order)")
	n := c.N(1500, 120000)
	c.Parallel(n, func(i int) { runCase(c, i) })
	c.Parallel(c.N(300, 16000), func(i int) { runHTMLCase(c, i) })
	c.Parallel(c.N(300, 12000), func(i int) { runOfficeCase(c, i) })
	c.Parallel(c.N(150, 4000), func(i int) { runPDFCase(c, i) })
	fixedCases(c)
	if c.Only == "" && c.Evaluations() < int64(n) {
		c.Inconclusive("fewer cases executed than planned")
	}
	_ = model.ElementTypeHeading
}
