// Package c18: multi-part documents are read in their declared order.
//
// Oracle: the declared order chosen by the generator (workbook <sheets> via
// relationships; presentation sldIdLst via relationships; OPF spine via the
// manifest), which is a random permutation of the file-name order and of the
// ZIP member order. Every part carries unique tokens. Observed at:
// tabula.Open(f).PageCount()/Text()/ToMarkdown()/Document().Pages[i] and the
// format readers (xlsx SheetNames/Sheet, pptx Slide, epubdoc Chapters).
//
// Assertions (never more than the statement):
//   - PageCount() = number of declared parts whose file exists;
//   - page j of Document() / unit j of the format reader shows only tokens of
//     the j-th declared readable part, and all of its required tokens;
//   - in Text() and Markdown the tokens come grouped by part in declared
//     order, every required token occurs, no token of an unreferenced part
//     (decoy, manifest-only item, slide master, navigation label) occurs.
//
// Tokens whose rendering the statement does not pin (sheet names, <title>
// of a chapter, speaker notes, shapes inside groups) are "optional": they need
// not be shown, but if shown they must be with their own part.
package c18

import (
	"archive/zip"
	"bytes"
	"fmt"
	"io"
	"os"
	"path/filepath"
	"strings"

	"github.com/tsawler/tabula"
	"github.com/tsawler/tabula/epubdoc"
	"github.com/tsawler/tabula/model"
	"github.com/tsawler/tabula/pptx"
	"github.com/tsawler/tabula/xlsx"

	"verifharness/fw"
	"verifharness/gen/ooxml"
)

const (
	findingPlus   = "C18-epub-plus-in-href"
	findingSlides = "C18-pptx-slide-order-by-file-name"
)

type failure struct {
	class string
	what  string
}

type owner struct {
	idx int // index among readable parts
	req bool
}

type checker struct {
	m     *pkgModel
	parts []part
	own   map[string]owner
	fails []failure
	cmp   int64
}

func newChecker(m *pkgModel) *checker {
	k := &checker{m: m, parts: m.readable(), own: map[string]owner{}}
	for i, p := range k.parts {
		for _, t := range p.Req {
			k.own[t] = owner{i, true}
		}
		for _, t := range p.Opt {
			k.own[t] = owner{i, false}
		}
	}
	return k
}

func (k *checker) fail(class, format string, a ...any) {
	if len(k.fails) < 12 {
		k.fails = append(k.fails, failure{k.m.Format + "/" + class, fmt.Sprintf(format, a...)})
	}
}

func (k *checker) describe(tok string) string {
	if o, ok := k.own[tok]; ok {
		return fmt.Sprintf("token of declared part #%d (%s)", o.idx+1, k.parts[o.idx].Path)
	}
	if w, ok := k.m.Foreign[tok]; ok {
		return "token of " + w
	}
	// missing declared part?
	for _, p := range k.m.Parts {
		if p.Missing {
			for _, t := range append(p.Req, p.Opt...) {
				if t == tok {
					return "token of an absent part " + p.Path
				}
			}
		}
	}
	return "unknown token"
}

// page checks one page / unit j.
func (k *checker) page(view string, j int, text string) {
	seen := map[string]bool{}
	for _, t := range fw.FindTokens(text) {
		k.cmp++
		seen[t] = true
		o, ok := k.own[t]
		if !ok {
			k.fail(view+"/foreign-text", "%s: unit %d shows %q, a %s", view, j+1, t, k.describe(t))
			return
		}
		if o.idx != j {
			k.fail(view+"/wrong-part", "%s: unit %d shows %q, a %s; declared order is %s", view, j+1, t, k.describe(t), k.m.Declared)
			return
		}
	}
	if j < len(k.parts) {
		for _, t := range k.parts[j].Req {
			k.cmp++
			if !seen[t] {
				k.fail(view+"/missing-text", "%s: unit %d does not show %q of declared part #%d (%s)", view, j+1, t, j+1, k.parts[j].Path)
				return
			}
		}
	}
}

// stream checks a whole-document rendering.
func (k *checker) stream(view, text string) {
	seen := map[string]bool{}
	last := -1
	lastTok := ""
	for _, t := range fw.FindTokens(text) {
		k.cmp++
		seen[t] = true
		o, ok := k.own[t]
		if !ok {
			k.fail(view+"/foreign-text", "%s shows %q, a %s", view, t, k.describe(t))
			return
		}
		if o.idx < last {
			k.fail(view+"/order", "%s shows %q (%s) after %q (%s); declared order is %s", view, t, k.describe(t), lastTok, k.describe(lastTok), k.m.Declared)
			return
		}
		if o.idx > last {
			last, lastTok = o.idx, t
		}
	}
	for j, p := range k.parts {
		for _, t := range p.Req {
			k.cmp++
			if !seen[t] {
				k.fail(view+"/missing-text", "%s does not show %q of declared part #%d (%s)", view, t, j+1, p.Path)
				return
			}
		}
	}
}

func (k *checker) count(view string, got int) bool {
	k.cmp++
	if got != len(k.parts) {
		k.fail(view+"/count", "%s = %d, but the package declares %d readable parts (%s)", view, got, len(k.parts), k.m.Declared)
		return false
	}
	return true
}

func pageText(p *model.Page) string {
	var sb strings.Builder
	for _, el := range p.Elements {
		switch e := el.(type) {
		case *model.Table:
			for _, row := range e.Rows {
				for _, cell := range row {
					sb.WriteString(cell.Text)
					sb.WriteString("\t")
				}
				sb.WriteString("\n")
			}
		case *model.List:
			for _, it := range e.Items {
				sb.WriteString(it.Text)
				sb.WriteString("\n")
			}
		case *model.Heading:
			sb.WriteString(e.Text + "\n")
		case *model.Paragraph:
			sb.WriteString(e.Text + "\n")
		default:
			if te, ok := el.(model.TextElement); ok {
				sb.WriteString(te.GetText() + "\n")
			}
		}
	}
	return sb.String()
}

func gen(c *fw.Ctx, idx int, o genOpts) ([]byte, *pkgModel) {
	switch idx % 3 {
	case 0:
		return genXLSX(c, idx, o)
	case 1:
		return genPPTX(c, idx, o)
	}
	return genEPUB(c, idx, o)
}

func runPackage(c *fw.Ctx, idx int, o genOpts, record bool) ([]failure, *pkgModel, map[string]any) {
	data, m := gen(c, idx, o)
	id := fmt.Sprintf("pkg:%d", idx)
	path := filepath.Join(c.Work, fmt.Sprintf("c18-%d-%v%v%v.%s", idx, o.NoPlus, o.PlainNames, o.NoDecoys, m.Format))
	if err := os.WriteFile(path, data, 0o644); err != nil {
		c.Inconclusive("cannot write scratch file: " + err.Error())
		return nil, m, nil
	}
	defer os.Remove(path)
	detail := map[string]any{"format": m.Format, "features": m.Features, "declared_order": m.Declared, "zip_members": m.ZipNames}
	k := newChecker(m)

	// facade
	c.Guard("facade", id, detail, func() {
		ext := tabula.Open(path)
		n, err := ext.PageCount()
		if err != nil {
			k.fail("open-error", "tabula.Open(f).PageCount() failed on a conforming package: %v", err)
			ext.Close()
			return
		}
		k.count("PageCount()", n)
		txt, _, err := ext.Text()
		if err != nil {
			k.fail("text-error", "Text(): %v", err)
		} else {
			k.stream("Text()", txt)
		}
		doc, _, err := ext.Document()
		if err != nil || doc == nil {
			k.fail("document-error", "Document(): %v", err)
		} else if k.count("len(Document().Pages)", len(doc.Pages)) {
			for j, p := range doc.Pages {
				k.page("Document().Pages", j, pageText(p))
			}
		}
		ext.Close()
		ext2 := tabula.Open(path)
		md, _, err := ext2.ToMarkdown()
		ext2.Close()
		if err != nil {
			k.fail("markdown-error", "ToMarkdown(): %v", err)
		} else {
			k.stream("ToMarkdown()", md)
		}
	})

	// format readers
	c.Guard("reader", id, detail, func() {
		switch m.Format {
		case "xlsx":
			xr, err := xlsx.Open(path)
			if err != nil {
				k.fail("reader-open-error", "xlsx.Open: %v", err)
				return
			}
			defer xr.Close()
			names := xr.SheetNames()
			if !k.count("len(SheetNames())", len(names)) {
				return
			}
			if n := len(names); n >= 2 {
				sel := []int{n - 1}
				if n >= 4 {
					sel = []int{1, n - 1}
				}
				xr.TextWithOptions(xlsx.ExtractOptions{Sheets: sel})
				xr.MarkdownWithOptions(xlsx.ExtractOptions{Sheets: sel})
				if t, err := xr.Text(); err != nil {
					k.fail("error/reader-text-after-selection", "xlsx.Reader.Text() after a selective read: %v", err)
				} else {
					k.stream("xlsx.Reader.Text() after a selective read", t)
				}
			}
			for j, nm := range names {
				k.cmp++
				if nm != k.parts[j].Label {
					k.fail("SheetNames/order", "SheetNames()[%d] = %q, want %q (declared part #%d, %s)", j, nm, k.parts[j].Label, j+1, k.parts[j].Path)
					break
				}
			}
			for j := range names {
				sh, err := xr.Sheet(j)
				if err != nil {
					continue
				}
				var sb strings.Builder
				for _, row := range sh.Rows {
					for _, cell := range row {
						sb.WriteString(cell.Value + "\t")
					}
				}
				k.page("xlsx.Sheet", j, sb.String())
			}
		case "pptx":
			pr, err := pptx.Open(path)
			if err != nil {
				k.fail("reader-open-error", "pptx.Open: %v", err)
				return
			}
			defer pr.Close()
			if !k.count("SlideCount()", pr.SlideCount()) {
				return
			}
			// the same Reader first serves a selection of slides (not a prefix of the
			// deck): the whole-deck views that follow still present the declared order
			if n := pr.SlideCount(); n >= 2 {
				sel := []int{n - 1}
				if n >= 4 {
					sel = []int{1, n - 1}
				}
				pr.TextWithOptions(pptx.ExtractOptions{IncludeNotes: true, IncludeTitles: true, SlideNumbers: sel})
				pr.MarkdownWithOptions(pptx.ExtractOptions{IncludeTitles: true, SlideNumbers: sel})
				if t, err := pr.TextWithOptions(pptx.ExtractOptions{IncludeNotes: true, IncludeTitles: true}); err != nil {
					k.fail("error/reader-text-after-selection", "pptx.Reader.TextWithOptions(all) after a selective read: %v", err)
				} else {
					k.stream("pptx.Reader.TextWithOptions(all slides) after a selective read", t)
				}
			}
			for j := 0; j < pr.SlideCount(); j++ {
				s, err := pr.Slide(j)
				if err != nil || s == nil {
					continue
				}
				var sb strings.Builder
				sb.WriteString(s.Title + "\n")
				for _, b := range s.Content {
					sb.WriteString(b.Text + "\n")
				}
				for _, t := range s.Tables {
					for _, row := range t.Rows {
						for _, cell := range row {
							sb.WriteString(cell.Text + "\t")
						}
					}
				}
				sb.WriteString(s.Notes)
				k.page("pptx.Slide", j, sb.String())
			}
		case "epub":
			er, err := epubdoc.Open(path)
			if err != nil {
				k.fail("reader-open-error", "epubdoc.Open: %v", err)
				return
			}
			defer er.Close()
			chs := er.Chapters()
			if !k.count("len(Chapters())", len(chs)) {
				return
			}
			for j, ch := range chs {
				k.page("epubdoc.Chapters", j, string(ch.Content))
			}
			// several views served by one Reader, in both orders
			if t, err := er.Text(); err == nil {
				k.stream("epubdoc.Reader.Text()", t)
			}
			// the filtered navigation modes narrow what a content document shows to what lies
			// outside navigation elements; the generated chapters (and the content a navigation
			// document carries outside its <nav>) have no such elements around their tokens, so
			// every declared part is still shown, in order
			for _, mode := range []int{2, 3} {
				o := epubdoc.ExtractOptions{NavigationExclusion: mode}
				if t, err := er.TextWithOptions(o); err == nil {
					k.stream(fmt.Sprintf("epubdoc.Reader.TextWithOptions(NavigationExclusion=%d)", mode), t)
				}
				if t, err := er.MarkdownWithOptions(o); err == nil {
					k.stream(fmt.Sprintf("epubdoc.Reader.MarkdownWithOptions(NavigationExclusion=%d)", mode), t)
				}
			}
			if d, err := er.Document(); err == nil && d != nil && k.count("len(epubdoc.Reader.Document().Pages) after Text()", len(d.Pages)) {
				for j, p := range d.Pages {
					k.page("epubdoc.Reader.Document().Pages after Text()", j, pageText(p))
				}
			}
			if md, err := er.Markdown(); err == nil {
				k.stream("epubdoc.Reader.Markdown() after Document()", md)
			}
			er2, err := epubdoc.Open(path)
			if err != nil {
				return
			}
			defer er2.Close()
			if d, err := er2.Document(); err == nil && d != nil && k.count("len(epubdoc.Reader.Document().Pages)", len(d.Pages)) {
				for j, p := range d.Pages {
					k.page("epubdoc.Reader.Document().Pages", j, pageText(p))
				}
			}
			if t, err := er2.Text(); err == nil {
				k.stream("epubdoc.Reader.Text() after Document()", t)
			}
		}
	})
	if record {
		c.Count("token_comparisons", k.cmp)
	}
	return k.fails, m, detail
}

// runDamagedPart: a conforming package in which one declared part (not the last)
// is cut off in the middle of its XML. Whether the reader drops that part or shows
// what stands in front of the cut is not judged (nor is the resulting page count);
// what every view shows on one page still belongs to one part, whole-document
// views keep the declared order, and the intact parts are shown completely.
func runDamagedPart(c *fw.Ctx, idx int) {
	id := fmt.Sprintf("dmg:%d", idx)
	if !c.Want(id) {
		return
	}
	data, m := gen(c, 200000+idx, genOpts{})
	zr, err := zip.NewReader(bytes.NewReader(data), int64(len(data)))
	if err != nil {
		return
	}
	r := c.Rand("dmg", idx)
	var cand []int
	for i, p := range m.Parts {
		if !p.Missing && i < len(m.Parts)-1 {
			cand = append(cand, i)
		}
	}
	if len(cand) == 0 {
		return
	}
	victim := cand[r.Intn(len(cand))]
	var members []ooxml.PartMember
	cut := false
	for _, f := range zr.File {
		rc, err := f.Open()
		if err != nil {
			return
		}
		b, _ := io.ReadAll(rc)
		rc.Close()
		if f.Name == m.Parts[victim].Path && len(b) > 200 {
			// behind the first token of the part, in the middle of what follows
			at := len(b) / 2
			if ts := fw.FindTokens(string(b)); len(ts) > 0 {
				if k := bytes.Index(b, []byte(ts[0])); k > 0 && k+fw.TokenLen+40 < len(b) {
					at = k + fw.TokenLen + 20 + r.Intn(len(b)-k-fw.TokenLen-30)
				}
			}
			b = b[:at]
			cut = true
		}
		members = append(members, ooxml.PartMember{Name: f.Name, Data: b, Store: f.Method == zip.Store})
	}
	if !cut {
		return
	}
	path := filepath.Join(c.Work, fmt.Sprintf("c18-dmg-%d.%s", idx, m.Format))
	if os.WriteFile(path, ooxml.PartZip(members), 0o644) != nil {
		return
	}
	defer os.Remove(path)
	detail := map[string]any{"format": m.Format, "features": m.Features, "declared_order": m.Declared, "damaged_part": m.Parts[victim].Path}
	c.Case(fmt.Sprintf("dmg|%d|%s|%d", idx, m.Format, victim), true)
	c.Seen("damaged_part_format", m.Format)
	own := map[string]int{}
	for i, p := range m.Parts {
		for _, t := range append(append([]string{}, p.Req...), p.Opt...) {
			own[t] = i
		}
	}
	var fails []failure
	fail := func(class, format string, a ...any) {
		if len(fails) < 6 {
			fails = append(fails, failure{m.Format + "/damaged-neighbour/" + class, fmt.Sprintf("(declared part #%d %s is cut off) ", victim+1, m.Parts[victim].Path) + fmt.Sprintf(format, a...)})
		}
	}
	unit := func(view string, j int, text string) {
		first := -1
		for _, t := range fw.FindTokens(text) {
			o, ok := own[t]
			if !ok {
				if w, isF := m.Foreign[t]; isF {
					fail(view+"/foreign-text", "%s: unit %d shows %q, a token of %s", view, j+1, t, w)
				}
				continue
			}
			if first < 0 {
				first = o
			} else if o != first {
				fail(view+"/mixed-parts", "%s: unit %d shows tokens of declared parts #%d and #%d together; declared order is %s", view, j+1, first+1, o+1, m.Declared)
				return
			}
		}
	}
	stream := func(view, text string) {
		seen := map[string]bool{}
		last := -1
		for _, t := range fw.FindTokens(text) {
			seen[t] = true
			if o, ok := own[t]; ok {
				if o < last {
					fail(view+"/order", "%s shows %q of declared part #%d after text of part #%d; declared order is %s", view, t, o+1, last+1, m.Declared)
					return
				}
				last = o
			}
		}
		for i, p := range m.Parts {
			if i == victim || p.Missing {
				continue
			}
			for _, t := range p.Req {
				if !seen[t] {
					fail(view+"/missing-text", "%s does not show %q of the intact declared part #%d (%s)", view, t, i+1, p.Path)
					return
				}
			}
		}
	}
	c.Guard("damaged-part", id, detail, func() {
		ext := tabula.Open(path)
		txt, _, err := ext.Text()
		ext.Close()
		if err != nil {
			c.Count("damaged_part_packages_refused", 1)
			return
		}
		c.Count("damaged_part_packages_read", 1)
		stream("Text()", txt)
		ext = tabula.Open(path)
		doc, _, err := ext.Document()
		ext.Close()
		if err == nil && doc != nil {
			for j, p := range doc.Pages {
				unit("Document().Pages", j, pageText(p))
			}
		}
		ext = tabula.Open(path)
		md, _, err := ext.ToMarkdown()
		ext.Close()
		if err == nil {
			stream("ToMarkdown()", md)
		}
		switch m.Format {
		case "pptx":
			if pr, err := pptx.Open(path); err == nil {
				defer pr.Close()
				for j := 0; j < pr.SlideCount(); j++ {
					if s, err := pr.Slide(j); err == nil && s != nil {
						var sb strings.Builder
						sb.WriteString(s.Title + "\n")
						for _, b := range s.Content {
							sb.WriteString(b.Text + "\n")
						}
						for _, t := range s.Tables {
							for _, row := range t.Rows {
								for _, cell := range row {
									sb.WriteString(cell.Text + "\t")
								}
							}
						}
						unit("pptx.Slide", j, sb.String())
					}
				}
			}
		case "xlsx":
			if xr, err := xlsx.Open(path); err == nil {
				defer xr.Close()
				for j := 0; j < xr.SheetCount(); j++ {
					if sh, err := xr.Sheet(j); err == nil && sh != nil {
						var sb strings.Builder
						for _, row := range sh.Rows {
							for _, cell := range row {
								sb.WriteString(cell.Value + "\t")
							}
						}
						unit("xlsx.Sheet", j, sb.String())
					}
				}
			}
		case "epub":
			if er, err := epubdoc.Open(path); err == nil {
				defer er.Close()
				for j, ch := range er.Chapters() {
					unit("epubdoc.Chapters", j, string(ch.Content))
				}
			}
		}
	})
	seen := map[string]bool{}
	for _, f := range fails {
		if !seen[f.class] {
			seen[f.class] = true
			c.Fail("", f.class, id, f.what, detail)
		}
	}
}

func hasFeature(m *pkgModel, f string) bool {
	for _, x := range m.Features {
		if x == f {
			return true
		}
	}
	return false
}

// Run is the C18 check.
func Run(c *fw.Ctx) {
	c.Rule("case = one generated XLSX / PPTX / EPUB package (parts, declared order, part file names, ZIP member order, decoys); " +
		"non-trivial iff the declared order of >= 2 parts differs from the lexicographic and the numeric file-name order and from the ZIP member order; distinct by hash of format + declared order + ZIP order + features")
	c.Assume("gen/ooxml and gen/epubw follow ECMA-376 Part 1 §18.2.20 (sheets), §19.2.1.34 (sldIdLst), Part 2 (OPC relationships; relative and absolute targets) and EPUB OCF/OPF (spine = reading order; manifest hrefs are percent-encoded relative URLs; '+' is an ordinary path character)",
		"a part file present in the ZIP but not reachable from the declaring part (no relationship / no manifest item / not in the spine) is not content of the document",
		"sheet names, chapter <title>, speaker notes and text of grouped shapes may be omitted by a rendering, but may only appear with their own part")
	c.Exhaustive(false)

	n := c.N(3000, 60000)
	c.Parallel(n, func(i int) {
		id := fmt.Sprintf("pkg:%d", i)
		if !c.Want(id) {
			return
		}
		// clean half: even case numbers carry no trigger feature of a listed finding
		o := genOpts{}
		if i%2 == 0 {
			o.NoPlus = c.FindingOpen(findingPlus)
			o.PlainNames = false
		}
		fails, m, detail := runPackage(c, i, o, true)
		c.Case(m.Format+"|"+m.Declared+"|"+strings.Join(m.ZipNames, ",")+"|"+strings.Join(m.Features, ","), m.Nontriv)
		c.Seen("format", m.Format)
		for _, f := range m.Features {
			c.Seen("feature", m.Format+":"+f)
		}
		c.Count("parts_declared", int64(len(m.Parts)))
		c.Count("foreign_tokens_planted", int64(len(m.Foreign)))
		if i < 6 {
			c.Sample(map[string]any{"id": id, "format": m.Format, "declared_order": m.Declared, "zip_members": m.ZipNames, "features": m.Features})
		}
		if len(fails) == 0 {
			return
		}
		finding := ""
		if m.Format == "epub" && hasFeature(m, "href=literal-plus") && c.FindingOpen(findingPlus) {
			f2, _, d2 := runPackage(c, i, genOpts{NoPlus: true}, false)
			if len(f2) == 0 {
				finding = findingPlus
			} else {
				fails, detail = f2, d2
				detail["note"] = "failure persists with '+' removed from part names"
			}
		}
		seen := map[string]bool{}
		for _, f := range fails {
			if seen[f.class] {
				continue
			}
			seen[f.class] = true
			c.Fail(finding, f.class, id, f.what, detail)
		}
	})
	c.Parallel(c.N(240, 3000), func(i int) { runDamagedPart(c, i) })
	if c.Only == "" && c.Evaluations() < int64(n) {
		c.Inconclusive("fewer cases executed than planned")
	}
}
