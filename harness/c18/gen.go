package c18

import (
	"fmt"
	"math/rand"
	"sort"
	"strings"

	"verifharness/fw"
	"verifharness/gen/epubw"
	"verifharness/gen/ooxml"
)

// part is one declared part of a package with the tokens it owns.
type part struct {
	Path    string   // package path of the part file
	Label   string   // sheet name (XLSX)
	Req     []string // tokens every rendering of the part must show
	Opt     []string // tokens that need not be shown, but may appear only with this part
	Missing bool     // declared, but the file is absent: not a readable part
}

type pkgModel struct {
	Format   string            // xlsx | pptx | epub
	Parts    []part            // declared order
	Foreign  map[string]string // token -> where it comes from; must be shown nowhere
	Features []string
	ZipNames []string
	Nontriv  bool
	Declared string // human-readable declared order
}

func (m *pkgModel) readable() []part {
	var out []part
	for _, p := range m.Parts {
		if !p.Missing {
			out = append(out, p)
		}
	}
	return out
}

// genOpts switches off single generator features (counterfactual attribution).
type genOpts struct {
	NoPlus     bool // EPUB: no literal '+' in part file names
	PlainNames bool // PPTX: slide parts named ppt/slides/slideN.xml only
	NoDecoys   bool
}

type featSet map[string]bool

func (f featSet) add(s string) { f[s] = true }
func (f featSet) list() []string {
	out := make([]string, 0, len(f))
	for k := range f {
		out = append(out, k)
	}
	sort.Strings(out)
	return out
}

// naturalLess orders names with embedded numbers numerically (slide2 < slide10).
func naturalLess(a, b string) bool {
	i, j := 0, 0
	for i < len(a) && j < len(b) {
		da, db := a[i] >= '0' && a[i] <= '9', b[j] >= '0' && b[j] <= '9'
		if da && db {
			si := i
			for i < len(a) && a[i] >= '0' && a[i] <= '9' {
				i++
			}
			sj := j
			for j < len(b) && b[j] >= '0' && b[j] <= '9' {
				j++
			}
			na, nb := strings.TrimLeft(a[si:i], "0"), strings.TrimLeft(b[sj:j], "0")
			if len(na) != len(nb) {
				return len(na) < len(nb)
			}
			if na != nb {
				return na < nb
			}
			continue
		}
		if a[i] != b[j] {
			return a[i] < b[j]
		}
		i++
		j++
	}
	return len(a)-i < len(b)-j
}

func sameOrder(a, b []string) bool {
	if len(a) != len(b) {
		return false
	}
	for i := range a {
		if a[i] != b[i] {
			return false
		}
	}
	return true
}

// permuteAwayFromNameOrder shuffles names until the order differs from both
// the lexicographic and the natural (numeric-aware) file-name order.
func permuteAwayFromNameOrder(names []string, r *rand.Rand) bool {
	if len(names) < 2 {
		return false
	}
	lex := append([]string{}, names...)
	sort.Strings(lex)
	nat := append([]string{}, names...)
	sort.Slice(nat, func(i, j int) bool { return naturalLess(nat[i], nat[j]) })
	for try := 0; try < 50; try++ {
		r.Shuffle(len(names), func(i, j int) { names[i], names[j] = names[j], names[i] })
		if !sameOrder(names, lex) && !sameOrder(names, nat) {
			return true
		}
	}
	return false
}

// zipOrderOf returns the declared part paths in the order they occur in the ZIP.
func zipOrderOf(zipNames []string, parts []string) []string {
	in := map[string]bool{}
	for _, p := range parts {
		in[p] = true
	}
	var out []string
	for _, n := range zipNames {
		if in[n] {
			out = append(out, n)
		}
	}
	return out
}

func distinctNumbers(r *rand.Rand, n, max int) []int {
	p := r.Perm(max)
	out := make([]int, n)
	for i := range out {
		out[i] = p[i] + 1
	}
	return out
}

var words = []string{"intro", "agenda", "budget", "metrics", "roadmap", "summary", "annex", "team", "risks", "outlook", "data", "notes"}

// ---------------------------------------------------------------- XLSX

func genXLSX(c *fw.Ctx, idx int, o genOpts) ([]byte, *pkgModel) {
	r := c.Rand("pkg", idx)
	toks := fw.NewTokens(c.Rand("pkg", idx, "tokens"))
	f := featSet{}
	m := &pkgModel{Format: "xlsx", Foreign: map[string]string{}}
	n := 1 + r.Intn(7)
	if r.Intn(8) > 0 && n < 2 {
		n = 2 + r.Intn(4)
	}
	naming := []string{"numbered", "numbered", "numbered-gaps", "renamed", "nested", "otherdir"}[r.Intn(6)]
	f.add("naming=" + naming)
	nDecoy := 0
	if !o.NoDecoys && r.Intn(2) == 0 {
		nDecoy = 1 + r.Intn(2)
		f.add("decoy-parts")
	}
	total := n + nDecoy
	nums := distinctNumbers(r, total, total)
	if naming == "numbered-gaps" {
		nums = distinctNumbers(r, total, 14)
	}
	ws := r.Perm(len(words))
	names := make([]string, total)
	for i := range names {
		switch naming {
		case "numbered", "numbered-gaps":
			names[i] = fmt.Sprintf("xl/worksheets/sheet%d.xml", nums[i])
		case "renamed":
			names[i] = fmt.Sprintf("xl/worksheets/%s.xml", words[ws[i]])
		case "nested":
			names[i] = fmt.Sprintf("xl/worksheets/%s/sheet%d.xml", []string{"a", "b"}[i%2], nums[i])
		case "otherdir":
			names[i] = fmt.Sprintf("xl/tabs/tab%d.xml", nums[i])
		}
	}
	declared := append([]string{}, names[:n]...)
	okName := permuteAwayFromNameOrder(declared, c.Rand("pkg", idx, "declared"))
	rids := distinctNumbers(r, total, total+5)
	sids := distinctNumbers(r, total, total+5)

	wb := &ooxml.XWorkbook{Styles: r.Intn(2) == 0, DocProps: r.Intn(2) == 0, Title: "c18"}
	if c.Rand("pkg", idx, "strict").Intn(4) == 0 {
		wb.Strict = true
		f.add("ooxml=iso-29500-strict")
	}
	if r.Intn(2) == 0 {
		f.add("missing-optional=styles/docProps")
	}
	mkSheet := func(i int, path string, rs *rand.Rand) (ooxml.XSheet, part) {
		sh := ooxml.XSheet{Name: toks.Next(), Part: path, RID: fmt.Sprintf("rId%d", rids[i]), SheetID: sids[i], AbsTarget: rs.Intn(4) == 0, Dimension: rs.Intn(2) == 0}
		p := part{Path: path, Label: sh.Name, Opt: []string{sh.Name}}
		h, w := 1+rs.Intn(3), 1+rs.Intn(3)
		for a := 0; a < h; a++ {
			for b := 0; b < w; b++ {
				t := toks.Next()
				k := []ooxml.XKind{ooxml.XShared, ooxml.XInline, ooxml.XFormulaStr}[rs.Intn(3)]
				cell := ooxml.XCell{Row: a, Col: b, Kind: k, V: t}
				if k == ooxml.XFormulaStr {
					cell.Formula = "A1"
				}
				sh.Cells = append(sh.Cells, cell)
				p.Req = append(p.Req, t)
			}
		}
		return sh, p
	}
	allInline := r.Intn(5) == 0 // no sharedStrings part at all
	for i, path := range declared {
		sh, p := mkSheet(i, path, c.Rand("pkg", idx, "part", i))
		if allInline {
			for k := range sh.Cells {
				if sh.Cells[k].Kind == ooxml.XShared {
					sh.Cells[k].Kind = ooxml.XInline
				}
			}
		}
		if n >= 3 && i == 1 && r.Intn(12) == 0 {
			sh.Missing, p.Missing = true, true
			f.add("declared-part-absent")
		}
		wb.Sheets = append(wb.Sheets, sh)
		m.Parts = append(m.Parts, p)
	}
	if allInline {
		f.add("missing-optional=sharedStrings")
	}
	for d := 0; d < nDecoy; d++ {
		sh, p := mkSheet(n+d, names[n+d], c.Rand("pkg", idx, "decoy", d))
		if allInline {
			for k := range sh.Cells {
				if sh.Cells[k].Kind == ooxml.XShared {
					sh.Cells[k].Kind = ooxml.XInline
				}
			}
		}
		wb.Decoys = append(wb.Decoys, sh)
		for _, t := range append(p.Req, p.Opt...) {
			m.Foreign[t] = "unreferenced worksheet part " + p.Path
		}
	}
	members := wb.Members(c.Rand("pkg", idx, "render"))
	okZip := shuffleAwayFromDeclared(members, declared, c, idx)
	m.ZipNames = ooxml.PartNames(members)
	m.Nontriv = okName && okZip
	m.Declared = strings.Join(declared, " > ")
	f.add(fmt.Sprintf("parts=%d", n))
	m.Features = f.list()
	return ooxml.PartZip(members), m
}

func shuffleAwayFromDeclared(members []ooxml.PartMember, declared []string, c *fw.Ctx, idx int) bool {
	for try := 0; try < 20; try++ {
		ooxml.PartShuffle(members, c.Rand("pkg", idx, "ziporder", try))
		if len(declared) < 2 {
			return false
		}
		present := zipOrderOf(ooxml.PartNames(members), declared)
		var decl []string
		in := map[string]bool{}
		for _, p := range present {
			in[p] = true
		}
		for _, d := range declared {
			if in[d] {
				decl = append(decl, d)
			}
		}
		if len(decl) >= 2 && !sameOrder(present, decl) {
			return true
		}
	}
	return false
}

// ---------------------------------------------------------------- PPTX

func genPPTX(c *fw.Ctx, idx int, o genOpts) ([]byte, *pkgModel) {
	r := c.Rand("pkg", idx)
	toks := fw.NewTokens(c.Rand("pkg", idx, "tokens"))
	f := featSet{}
	m := &pkgModel{Format: "pptx", Foreign: map[string]string{}}
	n := 1 + r.Intn(7)
	if r.Intn(8) > 0 && n < 2 {
		n = 2 + r.Intn(4)
	}
	naming := []string{"numbered", "numbered", "numbered-gaps", "renamed", "nested", "otherdir"}[r.Intn(6)]
	if o.PlainNames && naming != "numbered" && naming != "numbered-gaps" {
		naming = "numbered"
	}
	f.add("naming=" + naming)
	nDecoy := 0
	if r.Intn(2) == 0 {
		nDecoy = 1 + r.Intn(2)
	}
	if o.NoDecoys {
		nDecoy = 0
	}
	if nDecoy > 0 {
		f.add("decoy-parts")
	}
	total := n + nDecoy
	nums := distinctNumbers(r, total, total)
	if naming == "numbered-gaps" {
		nums = distinctNumbers(r, total, 14)
	}
	ws := r.Perm(len(words))
	names := make([]string, total)
	for i := range names {
		switch naming {
		case "numbered", "numbered-gaps":
			names[i] = fmt.Sprintf("ppt/slides/slide%d.xml", nums[i])
		case "renamed":
			names[i] = fmt.Sprintf("ppt/slides/%s.xml", words[ws[i]])
			if idx%2 == 1 { // part names with upper-case letters (each target is spelled as the member is stored)
				w := words[ws[i]]
				names[i] = fmt.Sprintf("ppt/slides/%s%s.%s", strings.ToUpper(w[:1]), w[1:], []string{"xml", "XML"}[i%2])
				f.add("part-names-with-upper-case")
			}
		case "nested":
			names[i] = fmt.Sprintf("ppt/slides/%s/slide%d.xml", []string{"a", "b"}[i%2], nums[i])
		case "otherdir":
			names[i] = fmt.Sprintf("ppt/deck/s%d.xml", nums[i])
		}
	}
	declared := append([]string{}, names[:n]...)
	okName := permuteAwayFromNameOrder(declared, c.Rand("pkg", idx, "declared"))
	rids := distinctNumbers(r, total, total+6)
	sids := distinctNumbers(r, total, 40)

	deck := &ooxml.PDeck{DocProps: r.Intn(2) == 0, Title: "c18", MasterText: toks.Next()}
	m.Foreign[deck.MasterText] = "slide master / layout placeholder text"
	mkSlide := func(i int, path string, rs *rand.Rand) (ooxml.PSlide, part) {
		s := ooxml.PSlide{Part: path, RID: fmt.Sprintf("rId%d", 10+rids[i]), SlideID: 255 + sids[i], AbsTarget: rs.Intn(4) == 0}
		p := part{Path: path}
		if rs.Intn(4) > 0 {
			s.Title = toks.Next() + " title"
			p.Req = append(p.Req, fw.FindTokens(s.Title)...)
		}
		np := rs.Intn(3)
		if s.Title == "" && np == 0 {
			np = 1
		}
		for k := 0; k < np; k++ {
			t := toks.Next()
			if rs.Intn(2) == 0 {
				t += " " + toks.Next()
			}
			s.Paras = append(s.Paras, t)
			p.Req = append(p.Req, fw.FindTokens(t)...)
		}
		if rs.Intn(3) == 0 {
			for k := 0; k < 1+rs.Intn(3); k++ {
				t := toks.Next()
				s.Bullets = append(s.Bullets, t)
				p.Req = append(p.Req, t)
			}
		}
		if rs.Intn(4) == 0 {
			for a := 0; a < 2; a++ {
				var row []string
				for b := 0; b < 2; b++ {
					t := toks.Next()
					row = append(row, t)
					p.Req = append(p.Req, t)
				}
				s.Table = append(s.Table, row)
			}
		}
		if rs.Intn(5) == 0 {
			t := toks.Next()
			s.Grouped = []string{t}
			// grouped shapes are slide content, but tabula's Markdown/model
			// handling of groups is outside this property: optional
			p.Opt = append(p.Opt, t)
		}
		if rs.Intn(4) == 0 {
			t := toks.Next()
			s.Notes = t + " note"
			s.NotesPart = fmt.Sprintf("ppt/notesSlides/notesSlide%d.xml", rids[i])
			// the notes slide is a part of its own, related to the slide: shown
			// with its slide or not at all
			p.Opt = append(p.Opt, t)
		}
		return s, p
	}
	for i, path := range declared {
		s, p := mkSlide(i, path, c.Rand("pkg", idx, "part", i))
		if n >= 3 && i == 1 && r.Intn(12) == 0 {
			s.Missing, p.Missing = true, true
			s.Notes = ""
			f.add("declared-part-absent")
		}
		if s.Notes != "" {
			f.add("notes")
		}
		if len(s.Table) > 0 {
			f.add("table")
		}
		deck.Slides = append(deck.Slides, s)
		m.Parts = append(m.Parts, p)
	}
	for d := 0; d < nDecoy; d++ {
		s, p := mkSlide(n+d, names[n+d], c.Rand("pkg", idx, "decoy", d))
		s.Notes = ""
		deck.Decoys = append(deck.Decoys, s)
		for _, t := range append(p.Req, p.Opt...) {
			m.Foreign[t] = "unreferenced slide part " + p.Path
		}
	}
	members := deck.Members(c.Rand("pkg", idx, "render"))
	okZip := shuffleAwayFromDeclared(members, declared, c, idx)
	m.ZipNames = ooxml.PartNames(members)
	m.Nontriv = okName && okZip
	m.Declared = strings.Join(declared, " > ")
	f.add(fmt.Sprintf("parts=%d", n))
	m.Features = f.list()
	return ooxml.PartZip(members), m
}

// ---------------------------------------------------------------- EPUB

func genEPUB(c *fw.Ctx, idx int, o genOpts) ([]byte, *pkgModel) {
	r := c.Rand("pkg", idx)
	toks := fw.NewTokens(c.Rand("pkg", idx, "tokens"))
	f := featSet{}
	m := &pkgModel{Format: "epub", Foreign: map[string]string{}}
	n := 1 + r.Intn(7)
	if r.Intn(8) > 0 && n < 2 {
		n = 2 + r.Intn(4)
	}
	ver := 2 + r.Intn(2)
	f.add(fmt.Sprintf("epub%d", ver))
	opf := []string{"content.opf", "OEBPS/content.opf", "OPS/pkg/package.opf", "a/b/c/book.opf"}[r.Intn(4)]
	f.add("opf=" + opf)
	opfDir := ""
	if i := strings.LastIndex(opf, "/"); i >= 0 {
		opfDir = opf[:i+1]
	}
	depth := strings.Count(opf, "/")

	naming := []string{"plain", "subdir", "space", "plus", "nonascii", "updir", "mixed", "mixed"}[r.Intn(8)]
	nDecoy, nManifestOnly := 0, 0
	if !o.NoDecoys && r.Intn(2) == 0 {
		nDecoy = 1 + r.Intn(2)
		f.add("decoy-parts")
	}
	if !o.NoDecoys && r.Intn(3) == 0 {
		nManifestOnly = 1
		f.add("manifest-item-not-in-spine")
	}
	total := n + nDecoy + nManifestOnly
	nums := distinctNumbers(r, total, total+3)
	names := make([]string, total)
	// the PRNG draws for names are made for every style, so that neutralising
	// '+' changes nothing else
	for i := range names {
		style := naming
		pick := r.Intn(7)
		if naming == "mixed" {
			style = []string{"plain", "subdir", "space", "plus", "nonascii", "updir", "percent"}[pick]
		}
		if style == "updir" && depth == 0 {
			style = "subdir"
		}
		plus := "+"
		if o.NoPlus {
			plus = "-"
		}
		var rel string
		switch style {
		case "plain":
			rel = fmt.Sprintf("ch%d.xhtml", nums[i])
		case "subdir":
			rel = fmt.Sprintf("text/part%d/ch%d.xhtml", i%2, nums[i])
		case "space":
			rel = fmt.Sprintf("text/chapter %d.xhtml", nums[i])
			f.add("href=percent-encoded-space")
		case "plus":
			rel = fmt.Sprintf("text/ch%sno%s%d.xhtml", plus, plus, nums[i])
			if !o.NoPlus {
				f.add("href=literal-plus")
			}
		case "nonascii":
			rel = fmt.Sprintf("texte/café 章%d.xhtml", nums[i])
			f.add("href=non-ascii")
		case "updir":
			rel = fmt.Sprintf("../shared/ch%d.xhtml", nums[i])
			f.add("href=dot-dot-segment")
		case "percent":
			// the file name itself contains a percent sign followed by hex digits
			// (href spells it %25..): decoding the href twice names another file
			rel = fmt.Sprintf("text/%s%d.xhtml", []string{"ch%20no", "100%41x", "a%2Fb"}[nums[i]%3], nums[i])
			f.add("href=literal-percent-in-name")
		}
		names[i] = cleanJoin(opfDir, rel)
	}
	declared := append([]string{}, names[:n]...)
	okName := permuteAwayFromNameOrder(declared, c.Rand("pkg", idx, "declared"))

	book := &epubw.Book{Version: ver, OPFPath: opf, Title: "c18 book", NavInSpine: -1, Guide: r.Intn(2) == 0}
	// manifest ids are XML IDs: case-sensitive NCNames. Style 1 gives neighbours
	// ids that differ only in case, style 2 ids with '.', '-', '_' and non-ASCII letters.
	idStyle := c.Rand("pkg", idx, "idstyle").Intn(3)
	switch idStyle {
	case 1:
		f.add("manifest-id=case-distinct")
	case 2:
		f.add("manifest-id=ncname-punctuation")
	}
	mk := func(i int, path string, rs *rand.Rand) (epubw.Chapter, part) {
		id := fmt.Sprintf("item%d", nums[i])
		switch idStyle {
		case 1:
			id = fmt.Sprintf("%s%d", []string{"sec-a", "Sec-A", "SEC-A", "sec-A"}[i%4], nums[i-i%4])
		case 2:
			id = fmt.Sprintf("c.%d-é_x", nums[i])
		}
		ch := epubw.Chapter{ID: id, Path: path, Style: epubw.HrefStyle(rs.Intn(4))}
		p := part{Path: path}
		tt := toks.Next()
		ch.Title = "T " + tt
		p.Opt = append(p.Opt, tt) // <title> is metadata of the chapter: optional in renderings
		if rs.Intn(3) > 0 {
			t := toks.Next()
			ch.Heading = t + " heading"
			p.Req = append(p.Req, t)
		}
		np := 1 + rs.Intn(3)
		for k := 0; k < np; k++ {
			t := toks.Next()
			ch.Paras = append(ch.Paras, "para "+t+" text")
			p.Req = append(p.Req, t)
		}
		f.add("hrefstyle=" + ch.Style.String())
		if rs.Intn(6) == 0 { // media type names are case-insensitive (RFC 2045 5.1)
			ch.MediaType = []string{"Application/XHTML+XML", "application/XHTML+xml"}[rs.Intn(2)]
			f.add("media-type-other-case")
		}
		return ch, p
	}
	for i, path := range declared {
		ch, p := mk(i, path, c.Rand("pkg", idx, "part", i))
		if n >= 3 && i == 1 && r.Intn(6) == 0 {
			ch.Missing, p.Missing = true, true
			f.add("declared-part-absent")
			// a file the package does not mention sits where the same href would lead
			// from the archive root (instead of from the package document's directory)
			if rel := strings.TrimPrefix(path, opfDir); opfDir != "" && rel != path && r.Intn(2) == 0 {
				dch, dp := mk(i, rel, c.Rand("pkg", idx, "rootdecoy")) // a decoy is not in the manifest: its id is never written
				book.Decoys = append(book.Decoys, dch)
				for _, t := range append(dp.Req, dp.Opt...) {
					m.Foreign[t] = "file not mentioned by the package (same href, resolved from the archive root) " + dp.Path
				}
				f.add("decoy-at-root-relative-href")
			}
		}
		if lr := c.Rand("pkg", idx, "linear", i); lr.Intn(5) == 0 {
			// an auxiliary content document (linear="no"): out of the default reading
			// flow for a reading system, but at this place of the spine all the same
			ch.Linear = "no"
			f.add("spine-item-linear=no")
		} else if lr.Intn(6) == 0 {
			ch.Linear = "yes"
		}
		book.Spine = append(book.Spine, ch)
		m.Parts = append(m.Parts, p)
	}
	for d := 0; d < nManifestOnly; d++ {
		ch, p := mk(n+d, names[n+d], c.Rand("pkg", idx, "monly", d))
		book.ManifestOnly = append(book.ManifestOnly, ch)
		for _, t := range append(p.Req, p.Opt...) {
			m.Foreign[t] = "manifest item outside the spine " + p.Path
		}
	}
	for d := 0; d < nDecoy; d++ {
		ch, p := mk(n+nManifestOnly+d, names[n+nManifestOnly+d], c.Rand("pkg", idx, "decoy", d))
		book.Decoys = append(book.Decoys, ch)
		for _, t := range append(p.Req, p.Opt...) {
			m.Foreign[t] = "file not mentioned by the package " + p.Path
		}
	}
	// navigation files
	navLabels := make([]string, n)
	for i := range navLabels {
		navLabels[i] = toks.Next()
	}
	book.NavLabel = func(i int) string { return "Go " + navLabels[i] }
	if ver == 2 || r.Intn(2) == 0 {
		book.NCXPath = opfDir + "toc.ncx"
		f.add("ncx")
	}
	if ver == 3 {
		book.NavPath = opfDir + []string{"nav.xhtml", "toc/nav.xhtml"}[r.Intn(2)]
		f.add("nav-document")
	}
	if ver == 3 && r.Intn(4) == 0 {
		// the navigation document is itself a spine item: a declared part whose
		// text (the labels) a rendering may show or suppress as navigation
		pos := r.Intn(n + 1)
		book.NavInSpine = pos
		np := part{Path: book.NavPath, Opt: append([]string{}, navLabels...)}
		if r.Intn(2) == 0 {
			// a navigation document is an ordinary XHTML content document: what it holds
			// outside its <nav> elements is content of that spine item like any other
			intro := toks.Next()
			book.NavIntro = "Preface " + intro + " before the contents list."
			np.Req = []string{intro}
			f.add("nav-document-with-content-outside-nav")
		}
		m.Parts = append(m.Parts[:pos], append([]part{np}, m.Parts[pos:]...)...)
		f.add("nav-document-in-spine")
	} else {
		for _, t := range navLabels {
			m.Foreign[t] = "navigation label (NCX / nav document outside the spine)"
		}
	}
	members := book.Members(c.Rand("pkg", idx, "render"))
	okZip := false
	for try := 0; try < 20; try++ {
		epubw.ShuffleTail(members, c.Rand("pkg", idx, "ziporder", try))
		var present, decl []string
		present = zipOrderOf(epubw.Names(members), declared)
		in := map[string]bool{}
		for _, p := range present {
			in[p] = true
		}
		for _, d := range declared {
			if in[d] {
				decl = append(decl, d)
			}
		}
		if len(decl) >= 2 && !sameOrder(present, decl) {
			okZip = true
			break
		}
		if len(decl) < 2 {
			break
		}
	}
	m.ZipNames = epubw.Names(members)
	m.Nontriv = okName && okZip
	m.Declared = strings.Join(declared, " > ")
	f.add(fmt.Sprintf("parts=%d", n))
	m.Features = f.list()
	return epubw.Zip(members), m
}

// cleanJoin joins dir (with trailing slash or empty) and a relative path,
// resolving "../" segments (RFC 3986 §5.2.4 remove_dot_segments for our
// restricted inputs).
func cleanJoin(dir, rel string) string {
	segs := []string{}
	for _, s := range strings.Split(strings.TrimSuffix(dir, "/"), "/") {
		if s != "" {
			segs = append(segs, s)
		}
	}
	for _, s := range strings.Split(rel, "/") {
		switch s {
		case "", ".":
		case "..":
			if len(segs) > 0 {
				segs = segs[:len(segs)-1]
			}
		default:
			segs = append(segs, s)
		}
	}
	return strings.Join(segs, "/")
}
