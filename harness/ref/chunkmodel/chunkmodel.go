// Package chunkmodel is the reference model for C12: a flat list of the
// content units of a model.Document (element, page, tokens, enclosing heading
// chain). It is independent of tabula's rag package: it reads only the public
// fields of the model package and keeps the heading chain with a level-keyed
// stack (one slot per heading level 1..6), never by path length.
package chunkmodel

import (
	"strings"
	"unicode"

	"github.com/tsawler/tabula/model"

	"verifharness/fw"
)

// Kind of a content unit.
type Kind int

const (
	Heading Kind = iota
	Paragraph
	List
	Table
	Image
)

func (k Kind) String() string {
	return [...]string{"heading", "paragraph", "list", "table", "image"}[k]
}

// Unit is one piece of document content that a chunking must cover.
type Unit struct {
	Kind    Kind
	PageIdx int      // index into doc.Pages
	Page    int      // Page.Number as seen by the model
	Elem    int      // index in the page's element list (or per-kind layout list)
	Level   int      // heading level (headings only)
	Text    string   // heading text (headings only, trimmed)
	Parts   []string // texts that must occur (white space aside): paragraph text, list item texts, cell texts, alt text
	Tokens  []string // unique tokens of the unit, in order
	Chain   []string // enclosing heading chain *before* this unit (for a heading: without itself)
	ChainIn []string // for a heading: chain including itself; else == Chain
	// Layout view only: the chains that are possible for this unit given that
	// the layout lists carry no cross-kind order on a page (chain after k of
	// the page's headings, k = 0..m).
	Allowed [][]string
}

// Stack is the level-keyed heading stack: slot[l] holds the text of the open
// heading of level l; opening a heading of level l closes every slot >= l.
type Stack struct {
	slot [16]string
	open [16]bool
}

// Push opens a heading. Levels outside 1..15 are clamped.
func (s *Stack) Push(level int, text string) {
	if level < 1 {
		level = 1
	}
	if level > 15 {
		level = 15
	}
	for l := level; l < len(s.slot); l++ {
		s.open[l] = false
		s.slot[l] = ""
	}
	s.open[level] = true
	s.slot[level] = text
}

// Chain returns the open headings from the outermost to the innermost.
func (s *Stack) Chain() []string {
	out := []string{}
	for l := 1; l < len(s.slot); l++ {
		if s.open[l] {
			out = append(out, s.slot[l])
		}
	}
	return out
}

// headingOfParagraph reports whether a Paragraph element is a "heading-like
// paragraph": its trimmed text equals the trimmed text of a heading that the
// layout analysis recorded for a page with the same number (that is the only
// place where the model says so). Returns the level.
func headingOfParagraph(doc *model.Document, pageNumber int, text string) (int, bool) {
	t := strings.TrimSpace(text)
	for _, p := range doc.Pages {
		if p == nil || p.Layout == nil || p.Number != pageNumber {
			continue
		}
		for _, h := range p.Layout.Headings {
			if strings.TrimSpace(h.Text) == t {
				return h.Level, true
			}
		}
	}
	return 0, false
}

// FlattenElements lists the units of the element view (Page.Elements), in
// document order.
func FlattenElements(doc *model.Document) []Unit {
	var out []Unit
	var st Stack
	for pi, p := range doc.Pages {
		if p == nil {
			continue
		}
		for ei, el := range p.Elements {
			u := Unit{PageIdx: pi, Page: p.Number, Elem: ei}
			switch e := el.(type) {
			case *model.Heading:
				u.Kind, u.Level, u.Text = Heading, e.Level, strings.TrimSpace(e.Text)
				u.Parts = []string{e.Text}
			case *model.Paragraph:
				if lvl, ok := headingOfParagraph(doc, p.Number, e.Text); ok {
					u.Kind, u.Level, u.Text = Heading, lvl, strings.TrimSpace(e.Text)
				} else {
					u.Kind = Paragraph
				}
				u.Parts = []string{e.Text}
			case *model.List:
				u.Kind = List
				for _, it := range e.Items {
					u.Parts = append(u.Parts, it.Text)
				}
			case *model.Table:
				u.Kind = Table
				for _, row := range e.Rows {
					for _, c := range row {
						u.Parts = append(u.Parts, c.Text)
					}
				}
			case *model.Image:
				u.Kind = Image
				if e.AltText != "" {
					u.Parts = []string{e.AltText}
				}
			default:
				continue
			}
			for _, part := range u.Parts {
				u.Tokens = append(u.Tokens, fw.FindTokens(part)...)
			}
			u.Chain = st.Chain()
			if u.Kind == Heading {
				st.Push(u.Level, u.Text)
			}
			u.ChainIn = st.Chain()
			out = append(out, u)
		}
	}
	return out
}

// FlattenLayout lists the units of the layout view (Page.Layout.Headings,
// Paragraphs, Lists). Headings deeper than maxPathLevel do not open a section
// (they are content); maxPathLevel <= 0 means no heading opens one.
// The per-kind order on a page is the list order; there is no cross-kind
// order, so Allowed holds every chain a unit may truthfully report.
func FlattenLayout(doc *model.Document, maxPathLevel int) []Unit {
	var out []Unit
	var st Stack
	for pi, p := range doc.Pages {
		if p == nil || p.Layout == nil {
			continue
		}
		// chains after k = 0..m headings of this page
		chains := [][]string{st.Chain()}
		var heads []Unit
		for hi, h := range p.Layout.Headings {
			u := Unit{Kind: Heading, PageIdx: pi, Page: p.Number, Elem: hi, Level: h.Level, Text: strings.TrimSpace(h.Text), Parts: []string{h.Text}}
			u.Tokens = fw.FindTokens(h.Text)
			u.Chain = st.Chain()
			if h.Level <= maxPathLevel {
				st.Push(h.Level, u.Text)
			}
			u.ChainIn = st.Chain()
			u.Allowed = [][]string{u.Chain, u.ChainIn}
			chains = append(chains, st.Chain())
			heads = append(heads, u)
		}
		out = append(out, heads...)
		for i, para := range p.Layout.Paragraphs {
			u := Unit{Kind: Paragraph, PageIdx: pi, Page: p.Number, Elem: i, Parts: []string{para.Text}, Tokens: fw.FindTokens(para.Text)}
			u.Chain, u.ChainIn, u.Allowed = st.Chain(), st.Chain(), chains
			out = append(out, u)
		}
		for i, l := range p.Layout.Lists {
			u := Unit{Kind: List, PageIdx: pi, Page: p.Number, Elem: i}
			for _, it := range l.Items {
				u.Parts = append(u.Parts, it.Text)
				u.Tokens = append(u.Tokens, fw.FindTokens(it.Text)...)
			}
			u.Chain, u.ChainIn, u.Allowed = st.Chain(), st.Chain(), chains
			out = append(out, u)
		}
	}
	return out
}

// Squeeze removes every white-space rune (the property compares "white space aside").
func Squeeze(s string) string {
	var b strings.Builder
	b.Grow(len(s))
	for _, r := range s {
		if !unicode.IsSpace(r) {
			b.WriteRune(r)
		}
	}
	return b.String()
}

// SameChain compares two heading chains white space aside.
func SameChain(a, b []string) bool {
	if len(a) != len(b) {
		return false
	}
	for i := range a {
		if Squeeze(a[i]) != Squeeze(b[i]) {
			return false
		}
	}
	return true
}

// InChains reports whether chain p is one of cs.
func InChains(p []string, cs [][]string) bool {
	for _, c := range cs {
		if SameChain(p, c) {
			return true
		}
	}
	return false
}
