// Package filt holds independent *encoders* for the PDF stream filters
// (ISO 32000-1 §7.4): the reference side of the C05 round-trip oracle, also
// used by the PDF writer. Nothing here imports tabula.
package filt

import (
	"bytes"
	"compress/zlib"
	"math/rand"
)

// Flate compresses with zlib at the given level (-1..9).
func Flate(data []byte, level int) []byte {
	var b bytes.Buffer
	w, _ := zlib.NewWriterLevel(&b, level)
	w.Write(data)
	w.Close()
	return b.Bytes()
}

func paeth(a, b, c byte) byte {
	p := int(a) + int(b) - int(c)
	pa, pb, pc := p-int(a), p-int(b), p-int(c)
	if pa < 0 {
		pa = -pa
	}
	if pb < 0 {
		pb = -pb
	}
	if pc < 0 {
		pc = -pc
	}
	if pa <= pb && pa <= pc {
		return a
	}
	if pb <= pc {
		return b
	}
	return c
}

// PNGPredict applies the PNG filters (PNG spec §9) row by row; rowTypes[i] in
// 0..4 is the filter of row i. len(data) must be a multiple of columns*colors
// (8 bits per component). Output rows are prefixed by their tag byte.
func PNGPredict(data []byte, columns, colors int, rowTypes []int) []byte {
	bpp := colors
	rl := columns * colors
	rows := len(data) / rl
	out := make([]byte, 0, rows*(rl+1))
	zero := make([]byte, rl)
	for r := 0; r < rows; r++ {
		cur := data[r*rl : (r+1)*rl]
		prev := zero
		if r > 0 {
			prev = data[(r-1)*rl : r*rl]
		}
		t := rowTypes[r]
		out = append(out, byte(t))
		for i := 0; i < rl; i++ {
			var left, up, ul byte
			if i >= bpp {
				left = cur[i-bpp]
				ul = prev[i-bpp]
			}
			up = prev[i]
			var pred byte
			switch t {
			case 0:
				pred = 0
			case 1:
				pred = left
			case 2:
				pred = up
			case 3:
				pred = byte((int(left) + int(up)) / 2)
			case 4:
				pred = paeth(left, up, ul)
			}
			out = append(out, cur[i]-pred)
		}
	}
	return out
}

// TIFFPredict applies TIFF predictor 2 (horizontal differencing, 8 bpc).
func TIFFPredict(data []byte, columns, colors int) []byte {
	rl := columns * colors
	out := make([]byte, len(data))
	for r := 0; r*rl < len(data); r++ {
		for i := 0; i < rl; i++ {
			idx := r*rl + i
			if i < colors {
				out[idx] = data[idx]
			} else {
				out[idx] = data[idx] - data[idx-colors]
			}
		}
	}
	return out
}

// PDF white-space bytes (ISO 32000-1 Table 1).
var WS = []byte{0x00, 0x09, 0x0A, 0x0C, 0x0D, 0x20}

// HexPolicy controls the spelling of ASCIIHex output.
type HexPolicy struct {
	Upper     bool
	WSProb    float64 // probability of white space before each digit
	DropLast0 bool    // if the final digit is 0, omit it (odd digit count; decoder pads 0)
}

// Hex encodes ASCIIHexDecode input, always terminated by '>'.
func Hex(data []byte, p HexPolicy, r *rand.Rand) []byte {
	digits := "0123456789abcdef"
	if p.Upper {
		digits = "0123456789ABCDEF"
	}
	var out []byte
	ws := func() {
		for r != nil && r.Float64() < p.WSProb {
			out = append(out, WS[r.Intn(len(WS))])
		}
	}
	for i, b := range data {
		ws()
		out = append(out, digits[b>>4])
		if i == len(data)-1 && p.DropLast0 && b&0x0f == 0 {
			break
		}
		ws()
		out = append(out, digits[b&0x0f])
	}
	ws()
	out = append(out, '>')
	return out
}

// A85Policy controls the spelling of ASCII85 output.
type A85Policy struct {
	UseZ   bool    // abbreviate all-zero groups as 'z'
	WSProb float64 // probability of white space before each character
}

// A85 encodes ASCII85Decode input terminated by "~>".
func A85(data []byte, p A85Policy, r *rand.Rand) []byte {
	var out []byte
	ws := func() {
		for r != nil && r.Float64() < p.WSProb {
			out = append(out, WS[r.Intn(len(WS))])
		}
	}
	put := func(c byte) { ws(); out = append(out, c) }
	i := 0
	for ; i+4 <= len(data); i += 4 {
		v := uint32(data[i])<<24 | uint32(data[i+1])<<16 | uint32(data[i+2])<<8 | uint32(data[i+3])
		if v == 0 && p.UseZ {
			put('z')
			continue
		}
		var g [5]byte
		for k := 4; k >= 0; k-- {
			g[k] = byte(v%85) + '!'
			v /= 85
		}
		for _, c := range g {
			put(c)
		}
	}
	if n := len(data) - i; n > 0 {
		var q [4]byte
		copy(q[:], data[i:])
		v := uint32(q[0])<<24 | uint32(q[1])<<16 | uint32(q[2])<<8 | uint32(q[3])
		var g [5]byte
		for k := 4; k >= 0; k-- {
			g[k] = byte(v%85) + '!'
			v /= 85
		}
		for _, c := range g[:n+1] {
			put(c)
		}
	}
	ws()
	out = append(out, '~', '>')
	return out
}
