// Package gfm is an independent reader for the block structures of
// GitHub-flavoured Markdown that the properties speak about: pipe tables
// (GFM spec §4.10, including `\|` escapes), ATX headings (§4.2), bullet and
// ordered list items (§5.2) with their indentation, thematic breaks, YAML
// front matter. Everything else is a paragraph.
//
// List nesting is reported by indentation (Indent = leading columns, Depth =
// position in the stack of strictly increasing indents of the current run of
// list items). This is deliberately the weaker reading: CommonMark nests a
// child only when it is indented to the parent's content column (3 for "1. "),
// a 2-space-per-level writer is still read as nested here.
package gfm

import (
	"strings"
)

// Block is one block-level structure.
type Block struct {
	Kind    string // frontmatter | heading | item | table | hr | para | html
	Line    int    // 0-based line of the first line
	Level   int    // heading: 1..6
	Indent  int    // item: leading columns
	Depth   int    // item: nesting depth by indentation
	Ordered bool   // item
	Number  string // item: digits of an ordered marker
	Text    string // heading / item / para text (raw inline Markdown)
	Rows    [][]string
	// table: Rows[0] is the header row; every row is padded / cut to the
	// header's cell count (GFM: fewer cells are filled, excess is ignored).
	RawCells []int // table: cell count of each row before padding
}

func isBlank(s string) bool { return strings.TrimSpace(s) == "" }

func leadingSpaces(s string) int {
	n := 0
	for n < len(s) && s[n] == ' ' {
		n++
	}
	return n
}

// atx parses an ATX heading line.
func atx(line string) (level int, text string, ok bool) {
	n := leadingSpaces(line)
	if n > 3 {
		return 0, "", false
	}
	s := line[n:]
	h := 0
	for h < len(s) && s[h] == '#' {
		h++
	}
	if h < 1 || h > 6 {
		return 0, "", false
	}
	rest := s[h:]
	if rest != "" && rest[0] != ' ' && rest[0] != '\t' {
		return 0, "", false
	}
	rest = strings.Trim(rest, " \t")
	// optional closing sequence
	if i := strings.LastIndexFunc(rest, func(r rune) bool { return r != '#' }); i >= 0 && i < len(rest)-1 {
		if rest[i] == ' ' || rest[i] == '\t' {
			rest = strings.TrimRight(rest[:i], " \t")
		}
	} else if i < 0 {
		rest = "" // only #s
	}
	return h, rest, true
}

func isHR(line string) bool {
	s := strings.TrimSpace(line)
	if leadingSpaces(line) > 3 || len(s) < 3 {
		return false
	}
	ch := s[0]
	if ch != '-' && ch != '*' && ch != '_' {
		return false
	}
	n := 0
	for i := 0; i < len(s); i++ {
		switch s[i] {
		case ch:
			n++
		case ' ', '\t':
		default:
			return false
		}
	}
	return n >= 3
}

// listItem parses a list item line.
func listItem(line string) (indent int, ordered bool, number, text string, ok bool) {
	indent = leadingSpaces(line)
	s := line[indent:]
	if s == "" {
		return
	}
	if s[0] == '-' || s[0] == '+' || s[0] == '*' {
		if len(s) == 1 {
			return indent, false, "", "", true
		}
		if s[1] == ' ' || s[1] == '\t' {
			return indent, false, "", strings.TrimLeft(s[1:], " \t"), true
		}
		return
	}
	d := 0
	for d < len(s) && s[d] >= '0' && s[d] <= '9' {
		d++
	}
	if d < 1 || d > 9 || d >= len(s) || (s[d] != '.' && s[d] != ')') {
		return
	}
	if d+1 == len(s) {
		return indent, true, s[:d], "", true
	}
	if s[d+1] == ' ' || s[d+1] == '\t' {
		return indent, true, s[:d], strings.TrimLeft(s[d+1:], " \t"), true
	}
	return
}

func isPunct(c byte) bool {
	return (c >= '!' && c <= '/') || (c >= ':' && c <= '@') || (c >= '[' && c <= '`') || (c >= '{' && c <= '~')
}

// SplitRow splits one table row into its cells (GFM §4.10): leading and
// trailing pipes are optional, a backslash escapes the following ASCII
// punctuation character for the purpose of finding cell boundaries, `\|`
// inside a cell stands for a literal pipe. Cells are trimmed.
func SplitRow(line string) []string {
	s := strings.TrimSpace(line)
	if strings.HasPrefix(s, "|") {
		s = s[1:]
	}
	var cells []string
	var cur strings.Builder
	closed := false
	for i := 0; i < len(s); i++ {
		c := s[i]
		closed = false
		if c == '\\' && i+1 < len(s) && isPunct(s[i+1]) {
			if s[i+1] == '|' {
				cur.WriteByte('|')
			} else {
				cur.WriteByte(c)
				cur.WriteByte(s[i+1])
			}
			i++
			continue
		}
		if c == '|' {
			cells = append(cells, strings.TrimSpace(cur.String()))
			cur.Reset()
			closed = true
			continue
		}
		cur.WriteByte(c)
	}
	if !closed {
		cells = append(cells, strings.TrimSpace(cur.String()))
	}
	return cells
}

func isDelimCell(s string) bool {
	s = strings.TrimSpace(s)
	s = strings.TrimPrefix(s, ":")
	s = strings.TrimSuffix(s, ":")
	if s == "" {
		return false
	}
	for i := 0; i < len(s); i++ {
		if s[i] != '-' {
			return false
		}
	}
	return true
}

func delimRow(line string) (int, bool) {
	if !strings.ContainsAny(line, "|-") {
		return 0, false
	}
	cells := SplitRow(line)
	if len(cells) == 0 {
		return 0, false
	}
	for _, c := range cells {
		if !isDelimCell(c) {
			return 0, false
		}
	}
	// a lone "---" without any pipe is a thematic break / setext underline
	if len(cells) == 1 && !strings.Contains(line, "|") {
		return 0, false
	}
	return len(cells), true
}

// Unescape removes the backslash of backslash-escaped ASCII punctuation
// (CommonMark §2.4), which is what an inline parser does to cell / heading
// text.
func Unescape(s string) string {
	if !strings.Contains(s, "\\") {
		return s
	}
	var sb strings.Builder
	for i := 0; i < len(s); i++ {
		if s[i] == '\\' && i+1 < len(s) && isPunct(s[i+1]) {
			i++
		}
		sb.WriteByte(s[i])
	}
	return sb.String()
}

// Parse reads the block structure of a Markdown document.
func Parse(md string) []Block {
	md = strings.ReplaceAll(md, "\r\n", "\n")
	lines := strings.Split(md, "\n")
	var out []Block
	i := 0
	// YAML front matter
	if len(lines) > 0 && strings.TrimRight(lines[0], " ") == "---" {
		for j := 1; j < len(lines); j++ {
			if strings.TrimRight(lines[j], " ") == "---" || strings.TrimRight(lines[j], " ") == "..." {
				out = append(out, Block{Kind: "frontmatter", Line: 0, Text: strings.Join(lines[1:j], "\n")})
				i = j + 1
				break
			}
		}
	}
	var stack []int // indents of the open list levels
	for i < len(lines) {
		line := lines[i]
		if isBlank(line) {
			i++
			continue
		}
		if lvl, text, ok := atx(line); ok {
			out = append(out, Block{Kind: "heading", Line: i, Level: lvl, Text: text})
			stack = nil
			i++
			continue
		}
		// table: header row + delimiter row with the same number of cells
		if i+1 < len(lines) && strings.Contains(line, "|") {
			if n, ok := delimRow(lines[i+1]); ok {
				hdr := SplitRow(line)
				if len(hdr) == n {
					b := Block{Kind: "table", Line: i}
					b.Rows = append(b.Rows, hdr)
					b.RawCells = append(b.RawCells, n)
					j := i + 2
					for j < len(lines) {
						l := lines[j]
						if isBlank(l) || !strings.Contains(l, "|") {
							break
						}
						if _, _, ok := atx(l); ok {
							break
						}
						cells := SplitRow(l)
						b.RawCells = append(b.RawCells, len(cells))
						for len(cells) < n {
							cells = append(cells, "")
						}
						b.Rows = append(b.Rows, cells[:n])
						j++
					}
					out = append(out, b)
					stack = nil
					i = j
					continue
				}
			}
		}
		if isHR(line) {
			out = append(out, Block{Kind: "hr", Line: i})
			stack = nil
			i++
			continue
		}
		if indent, ordered, num, text, ok := listItem(line); ok {
			for len(stack) > 0 && stack[len(stack)-1] > indent {
				stack = stack[:len(stack)-1]
			}
			if len(stack) == 0 || stack[len(stack)-1] < indent {
				stack = append(stack, indent)
			}
			out = append(out, Block{Kind: "item", Line: i, Indent: indent, Depth: len(stack) - 1, Ordered: ordered, Number: num, Text: text})
			i++
			continue
		}
		if strings.HasPrefix(strings.TrimSpace(line), "<!--") {
			out = append(out, Block{Kind: "html", Line: i, Text: line})
			i++
			continue
		}
		// paragraph: up to the next blank line or block start
		j := i + 1
		for j < len(lines) {
			l := lines[j]
			if isBlank(l) {
				break
			}
			if _, _, ok := atx(l); ok {
				break
			}
			if _, _, _, _, ok := listItem(l); ok {
				break
			}
			if isHR(l) {
				break
			}
			if j+1 < len(lines) && strings.Contains(l, "|") {
				if n, ok := delimRow(lines[j+1]); ok && len(SplitRow(l)) == n {
					break
				}
			}
			j++
		}
		out = append(out, Block{Kind: "para", Line: i, Text: strings.Join(lines[i:j], "\n")})
		stack = nil
		i = j
	}
	return out
}
