package gfm

import (
	"encoding/json"
	"os"
	"strings"
	"testing"
)

// TestDumpSamples is a development aid: GFM_SAMPLES=<file with samples
// separated by "=====" lines> prints the parsed blocks as JSON lines so that
// they can be diffed against another Markdown implementation.
func TestDumpSamples(t *testing.T) {
	path := os.Getenv("GFM_SAMPLES")
	if path == "" {
		t.Skip("GFM_SAMPLES not set")
	}
	b, err := os.ReadFile(path)
	if err != nil {
		t.Fatal(err)
	}
	for i, s := range strings.Split(string(b), "\n=====\n") {
		for _, blk := range Parse(s) {
			switch blk.Kind {
			case "table":
				for r := range blk.Rows {
					for c := range blk.Rows[r] {
						blk.Rows[r][c] = Unescape(blk.Rows[r][c])
					}
				}
				j, _ := json.Marshal(map[string]any{"s": i, "k": "table", "rows": blk.Rows})
				os.Stdout.Write(append(j, '\n'))
			case "heading":
				j, _ := json.Marshal(map[string]any{"s": i, "k": "heading", "level": blk.Level, "text": blk.Text})
				os.Stdout.Write(append(j, '\n'))
			case "item":
				j, _ := json.Marshal(map[string]any{"s": i, "k": "item", "ordered": blk.Ordered, "depth": blk.Depth, "text": blk.Text})
				os.Stdout.Write(append(j, '\n'))
			}
		}
	}
}
