The four *.enc files in this directory are copied verbatim from Tcl 8.6
(library/encoding/{cp1252,macRoman,symbol,dingbats}.enc, Debian package tcl8.6).
They are distributed under the Tcl licence (BSD style) reproduced below.

This software is copyrighted by the Regents of the University of
California, Sun Microsystems, Inc., Scriptics Corporation,
and other parties.  The following terms apply to all files associated
with the software unless explicitly disclaimed in individual files.

The authors hereby grant permission to use, copy, modify, distribute,
and license this software and its documentation for any purpose, provided
that existing copyright notices are retained in all copies and that this
notice is included verbatim in any distributions. No written agreement,
license, or royalty fee is required for any of the authorized uses.
Modifications to this software may be copyrighted by their authors
and need not follow the licensing terms described here, provided that
the new terms are clearly indicated on the first page of each file where
they apply.

IN NO EVENT SHALL THE AUTHORS OR DISTRIBUTORS BE LIABLE TO ANY PARTY
FOR DIRECT, INDIRECT, SPECIAL, INCIDENTAL, OR CONSEQUENTIAL DAMAGES
ARISING OUT OF THE USE OF THIS SOFTWARE, ITS DOCUMENTATION, OR ANY
DERIVATIVES THEREOF, EVEN IF THE AUTHORS HAVE BEEN ADVISED OF THE
POSSIBILITY OF SUCH DAMAGE.

THE AUTHORS AND DISTRIBUTORS SPECIFICALLY DISCLAIM ANY WARRANTIES,
INCLUDING, BUT NOT LIMITED TO, THE IMPLIED WARRANTIES OF MERCHANTABILITY,
FITNESS FOR A PARTICULAR PURPOSE, AND NON-INFRINGEMENT.  THIS SOFTWARE
IS PROVIDED ON AN "AS IS" BASIS, AND THE AUTHORS AND DISTRIBUTORS HAVE
NO OBLIGATION TO PROVIDE MAINTENANCE, SUPPORT, UPDATES, ENHANCEMENTS, OR
MODIFICATIONS.

GOVERNMENT USE: If you are acquiring this software on behalf of the
U.S. government, the Government shall have only "Restricted Rights"
in the software and related documentation as defined in the Federal 
Acquisition Regulations (FARs) in Clause 52.227.19 (c) (2).  If you
are acquiring the software on behalf of the Department of Defense, the
software shall be classified as "Commercial Computer Software" and the
Government shall have only "Restricted Rights" as defined in Clause
252.227-7013 (c) (1) of DFARs.  Notwithstanding the foregoing, the
authors grant the U.S. Government and others acting in its behalf
permission to use and distribute the software in accordance with the
terms specified in this license. 
