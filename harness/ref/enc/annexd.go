package enc

// Hand transcription of ISO 32000-1:2008 Annex D.2 (Latin character set and
// encodings, columns STD and PDF) by glyph name, and the subset of the Adobe
// Glyph List (AGL 2.0) needed to resolve those names. Codes not listed are
// undefined in the standard (=> masked).

var asciiNames = map[int]string{
	0x20: "space", 0x21: "exclam", 0x22: "quotedbl", 0x23: "numbersign", 0x24: "dollar", 0x25: "percent",
	0x26: "ampersand", 0x28: "parenleft", 0x29: "parenright", 0x2A: "asterisk", 0x2B: "plus",
	0x2C: "comma", 0x2D: "hyphen", 0x2E: "period", 0x2F: "slash",
	0x30: "zero", 0x31: "one", 0x32: "two", 0x33: "three", 0x34: "four", 0x35: "five", 0x36: "six",
	0x37: "seven", 0x38: "eight", 0x39: "nine", 0x3A: "colon", 0x3B: "semicolon", 0x3C: "less",
	0x3D: "equal", 0x3E: "greater", 0x3F: "question", 0x40: "at",
	0x5B: "bracketleft", 0x5C: "backslash", 0x5D: "bracketright", 0x5E: "asciicircum", 0x5F: "underscore",
	0x7B: "braceleft", 0x7C: "bar", 0x7D: "braceright", 0x7E: "asciitilde",
}

// standardNames: StandardEncoding (octal codes of Annex D.2 column STD).
var standardNames = map[int]string{
	0x27: "quoteright", 0x60: "quoteleft",
	0xA1: "exclamdown", 0xA2: "cent", 0xA3: "sterling", 0xA4: "fraction", 0xA5: "yen", 0xA6: "florin",
	0xA7: "section", 0xA8: "currency", 0xA9: "quotesingle", 0xAA: "quotedblleft", 0xAB: "guillemotleft",
	0xAC: "guilsinglleft", 0xAD: "guilsinglright", 0xAE: "fi", 0xAF: "fl",
	0xB1: "endash", 0xB2: "dagger", 0xB3: "daggerdbl", 0xB4: "periodcentered", 0xB6: "paragraph",
	0xB7: "bullet", 0xB8: "quotesinglbase", 0xB9: "quotedblbase", 0xBA: "quotedblright",
	0xBB: "guillemotright", 0xBC: "ellipsis", 0xBD: "perthousand", 0xBF: "questiondown",
	0xC1: "grave", 0xC2: "acute", 0xC3: "circumflex", 0xC4: "tilde", 0xC5: "macron", 0xC6: "breve",
	0xC7: "dotaccent", 0xC8: "dieresis", 0xCA: "ring", 0xCB: "cedilla", 0xCD: "hungarumlaut",
	0xCE: "ogonek", 0xCF: "caron", 0xD0: "emdash",
	0xE1: "AE", 0xE3: "ordfeminine", 0xE8: "Lslash", 0xE9: "Oslash", 0xEA: "OE", 0xEB: "ordmasculine",
	0xF1: "ae", 0xF5: "dotlessi", 0xF8: "lslash", 0xF9: "oslash", 0xFA: "oe", 0xFB: "germandbls",
}

// pdfDocNames: PDFDocEncoding (Annex D.2 column PDF and D.3).
var pdfDocNames = map[int]string{
	0x18: "breve", 0x19: "caron", 0x1A: "circumflex", 0x1B: "dotaccent", 0x1C: "hungarumlaut",
	0x1D: "ogonek", 0x1E: "ring", 0x1F: "tilde",
	0x27: "quotesingle", 0x60: "grave",
	0x80: "bullet", 0x81: "dagger", 0x82: "daggerdbl", 0x83: "ellipsis", 0x84: "emdash", 0x85: "endash",
	0x86: "florin", 0x87: "fraction", 0x88: "guilsinglleft", 0x89: "guilsinglright", 0x8A: "minus",
	0x8B: "perthousand", 0x8C: "quotedblbase", 0x8D: "quotedblleft", 0x8E: "quotedblright",
	0x8F: "quoteleft", 0x90: "quoteright", 0x91: "quotesinglbase", 0x92: "trademark", 0x93: "fi",
	0x94: "fl", 0x95: "Lslash", 0x96: "OE", 0x97: "Scaron", 0x98: "Ydieresis", 0x99: "Zcaron",
	0x9A: "dotlessi", 0x9B: "lslash", 0x9C: "oe", 0x9D: "scaron", 0x9E: "zcaron",
	0xA0: "Euro", 0xA1: "exclamdown", 0xA2: "cent", 0xA3: "sterling", 0xA4: "currency", 0xA5: "yen",
	0xA6: "brokenbar", 0xA7: "section", 0xA8: "dieresis", 0xA9: "copyright", 0xAA: "ordfeminine",
	0xAB: "guillemotleft", 0xAC: "logicalnot", 0xAE: "registered", 0xAF: "macron",
	0xB0: "degree", 0xB1: "plusminus", 0xB2: "twosuperior", 0xB3: "threesuperior", 0xB4: "acute",
	0xB5: "mu", 0xB6: "paragraph", 0xB7: "periodcentered", 0xB8: "cedilla", 0xB9: "onesuperior",
	0xBA: "ordmasculine", 0xBB: "guillemotright", 0xBC: "onequarter", 0xBD: "onehalf",
	0xBE: "threequarters", 0xBF: "questiondown",
}

// latin1Upper are the glyph names of codes 0xC0..0xFF in PDFDocEncoding (same
// positions as ISO 8859-1).
var latin1Upper = []string{
	"Agrave", "Aacute", "Acircumflex", "Atilde", "Adieresis", "Aring", "AE", "Ccedilla",
	"Egrave", "Eacute", "Ecircumflex", "Edieresis", "Igrave", "Iacute", "Icircumflex", "Idieresis",
	"Eth", "Ntilde", "Ograve", "Oacute", "Ocircumflex", "Otilde", "Odieresis", "multiply",
	"Oslash", "Ugrave", "Uacute", "Ucircumflex", "Udieresis", "Yacute", "Thorn", "germandbls",
	"agrave", "aacute", "acircumflex", "atilde", "adieresis", "aring", "ae", "ccedilla",
	"egrave", "eacute", "ecircumflex", "edieresis", "igrave", "iacute", "icircumflex", "idieresis",
	"eth", "ntilde", "ograve", "oacute", "ocircumflex", "otilde", "odieresis", "divide",
	"oslash", "ugrave", "uacute", "ucircumflex", "udieresis", "yacute", "thorn", "ydieresis",
}

// agl: Adobe Glyph List subset (glyph name -> first listed code point).
var agl = map[string]rune{
	"space": 0x0020, "exclam": 0x0021, "quotedbl": 0x0022, "numbersign": 0x0023, "dollar": 0x0024,
	"percent": 0x0025, "ampersand": 0x0026, "quotesingle": 0x0027, "parenleft": 0x0028,
	"parenright": 0x0029, "asterisk": 0x002A, "plus": 0x002B, "comma": 0x002C, "hyphen": 0x002D,
	"period": 0x002E, "slash": 0x002F, "zero": 0x0030, "one": 0x0031, "two": 0x0032, "three": 0x0033,
	"four": 0x0034, "five": 0x0035, "six": 0x0036, "seven": 0x0037, "eight": 0x0038, "nine": 0x0039,
	"colon": 0x003A, "semicolon": 0x003B, "less": 0x003C, "equal": 0x003D, "greater": 0x003E,
	"question": 0x003F, "at": 0x0040, "bracketleft": 0x005B, "backslash": 0x005C,
	"bracketright": 0x005D, "asciicircum": 0x005E, "underscore": 0x005F, "grave": 0x0060,
	"braceleft": 0x007B, "bar": 0x007C, "braceright": 0x007D, "asciitilde": 0x007E,
	"exclamdown": 0x00A1, "cent": 0x00A2, "sterling": 0x00A3, "currency": 0x00A4, "yen": 0x00A5,
	"brokenbar": 0x00A6, "section": 0x00A7, "dieresis": 0x00A8, "copyright": 0x00A9,
	"ordfeminine": 0x00AA, "guillemotleft": 0x00AB, "logicalnot": 0x00AC, "registered": 0x00AE,
	"macron": 0x00AF, "degree": 0x00B0, "plusminus": 0x00B1, "twosuperior": 0x00B2,
	"threesuperior": 0x00B3, "acute": 0x00B4, "mu": 0x00B5, "paragraph": 0x00B6,
	"periodcentered": 0x00B7, "cedilla": 0x00B8, "onesuperior": 0x00B9, "ordmasculine": 0x00BA,
	"guillemotright": 0x00BB, "onequarter": 0x00BC, "onehalf": 0x00BD, "threequarters": 0x00BE,
	"questiondown": 0x00BF,
	"Agrave":       0x00C0, "Aacute": 0x00C1, "Acircumflex": 0x00C2, "Atilde": 0x00C3, "Adieresis": 0x00C4,
	"Aring": 0x00C5, "AE": 0x00C6, "Ccedilla": 0x00C7, "Egrave": 0x00C8, "Eacute": 0x00C9,
	"Ecircumflex": 0x00CA, "Edieresis": 0x00CB, "Igrave": 0x00CC, "Iacute": 0x00CD,
	"Icircumflex": 0x00CE, "Idieresis": 0x00CF, "Eth": 0x00D0, "Ntilde": 0x00D1, "Ograve": 0x00D2,
	"Oacute": 0x00D3, "Ocircumflex": 0x00D4, "Otilde": 0x00D5, "Odieresis": 0x00D6, "multiply": 0x00D7,
	"Oslash": 0x00D8, "Ugrave": 0x00D9, "Uacute": 0x00DA, "Ucircumflex": 0x00DB, "Udieresis": 0x00DC,
	"Yacute": 0x00DD, "Thorn": 0x00DE, "germandbls": 0x00DF,
	"agrave": 0x00E0, "aacute": 0x00E1, "acircumflex": 0x00E2, "atilde": 0x00E3, "adieresis": 0x00E4,
	"aring": 0x00E5, "ae": 0x00E6, "ccedilla": 0x00E7, "egrave": 0x00E8, "eacute": 0x00E9,
	"ecircumflex": 0x00EA, "edieresis": 0x00EB, "igrave": 0x00EC, "iacute": 0x00ED,
	"icircumflex": 0x00EE, "idieresis": 0x00EF, "eth": 0x00F0, "ntilde": 0x00F1, "ograve": 0x00F2,
	"oacute": 0x00F3, "ocircumflex": 0x00F4, "otilde": 0x00F5, "odieresis": 0x00F6, "divide": 0x00F7,
	"oslash": 0x00F8, "ugrave": 0x00F9, "uacute": 0x00FA, "ucircumflex": 0x00FB, "udieresis": 0x00FC,
	"yacute": 0x00FD, "thorn": 0x00FE, "ydieresis": 0x00FF,
	"dotlessi": 0x0131, "Lslash": 0x0141, "lslash": 0x0142, "OE": 0x0152, "oe": 0x0153,
	"Scaron": 0x0160, "scaron": 0x0161, "Ydieresis": 0x0178, "Zcaron": 0x017D, "zcaron": 0x017E,
	"florin": 0x0192, "circumflex": 0x02C6, "caron": 0x02C7, "breve": 0x02D8, "dotaccent": 0x02D9,
	"ring": 0x02DA, "ogonek": 0x02DB, "tilde": 0x02DC, "hungarumlaut": 0x02DD,
	"endash": 0x2013, "emdash": 0x2014, "quoteleft": 0x2018, "quoteright": 0x2019,
	"quotesinglbase": 0x201A, "quotedblleft": 0x201C, "quotedblright": 0x201D, "quotedblbase": 0x201E,
	"dagger": 0x2020, "daggerdbl": 0x2021, "bullet": 0x2022, "ellipsis": 0x2026, "perthousand": 0x2030,
	"guilsinglleft": 0x2039, "guilsinglright": 0x203A, "fraction": 0x2044, "Euro": 0x20AC,
	"trademark": 0x2122, "minus": 0x2212, "fi": 0xFB01, "fl": 0xFB02,
}

func init() {
	for c := 'A'; c <= 'Z'; c++ {
		agl[string(c)] = c
		agl[string(c+32)] = c + 32
	}
	for _, m := range []map[int]string{standardNames, pdfDocNames} {
		for c, g := range asciiNames {
			if _, ok := m[c]; !ok {
				m[c] = g
			}
		}
		for c := 'A'; c <= 'Z'; c++ {
			m[int(c)] = string(c)
			m[int(c)+32] = string(c + 32)
		}
	}
	for i, g := range latin1Upper {
		pdfDocNames[0xC0+i] = g
	}
}
