// Package enc holds reference byte->Unicode tables for the six simple-font
// encodings tabula knows by name, independent of tabula's own tables, plus the
// "don't-care" mask that keeps the C07 oracle no stricter than the standards.
//
// Sources
//   - WinAnsiEncoding, MacRomanEncoding, SymbolEncoding, ZapfDingbatsEncoding:
//     Tcl 8.6 encoding tables cp1252, macRoman, symbol, dingbats (tcl/*.enc,
//     vendored verbatim, Tcl/BSD licence in tcl/LICENSE.tcl).
//   - StandardEncoding, PDFDocEncoding: hand transcription of ISO 32000-1
//     Annex D.2/D.3 by glyph name, resolved through the Adobe Glyph List
//     (annexd.go).
//
// Mask (a masked code is never asserted):
//   - byte values 0x00-0x1F (C0 control codes; the standards give them no
//     graphic meaning for fonts, PDFDocEncoding 0x18-0x1F included by decision
//     of DESIGN.md §5 C07);
//   - codes the reference leaves undefined (0000 in the Tcl table / no glyph
//     name in Annex D);
//   - codes whose reference value is a C0/C1 control or DEL (Tcl fills the
//     holes of cp1252/symbol/dingbats with the identity control);
//   - codes whose reference value is a private-use code point;
//   - MacRomanEncoding: the 15 code points that exist in Mac OS Roman (the Tcl
//     table) but not in PDF's MacRomanEncoding (ISO 32000-1 §9.6.6.4 note /
//     Annex D.2: notequal infinity lessequal greaterequal partialdiff
//     summation product pi integral Omega radical approxequal Delta lozenge
//     apple) are undefined in the PDF standard => masked; 0xDB is currency in
//     PDF and Euro in Mac OS Roman => both accepted.
//
// Aliases: two standards name the same glyph by different code points; Canon
// folds each alias pair to one representative (after NFC).
package enc

import (
	"embed"
	"fmt"
	"strconv"
	"strings"

	"golang.org/x/text/unicode/norm"
)

//go:embed tcl/*.enc
var tclFS embed.FS

// Table is one reference encoding.
type Table struct {
	Name   string      // PDF name (WinAnsiEncoding …)
	Source string      // provenance
	Ref    [256]rune   // 0 = undefined
	Alt    [256][]rune // further accepted values (documented disagreements between standards)
	Care   [256]bool   // true = asserted
	Why    [256]string // reason when !Care
}

// Names lists the encodings in a fixed order.
var Names = []string{"WinAnsiEncoding", "MacRomanEncoding", "PDFDocEncoding", "StandardEncoding", "SymbolEncoding", "ZapfDingbatsEncoding"}

var tclFile = map[string]string{
	"WinAnsiEncoding":      "cp1252",
	"MacRomanEncoding":     "macRoman",
	"SymbolEncoding":       "symbol",
	"ZapfDingbatsEncoding": "dingbats",
}

// ParseTcl reads a single-byte Tcl .enc file: comment line, "S", a line
// "<fallback> <symbol> <pages>", then per page a 2-hex-digit page number and 16
// lines of 16 four-hex-digit code points.
func ParseTcl(data string) ([256]rune, error) {
	var out [256]rune
	lines := strings.Split(strings.ReplaceAll(data, "\r", ""), "\n")
	i := 0
	for i < len(lines) && strings.HasPrefix(lines[i], "#") {
		i++
	}
	if i >= len(lines) || strings.TrimSpace(lines[i]) != "S" {
		return out, fmt.Errorf("not a single-byte Tcl encoding file")
	}
	i++
	hdr := strings.Fields(lines[i])
	if len(hdr) != 3 || hdr[2] != "1" {
		return out, fmt.Errorf("unexpected header %q", lines[i])
	}
	i++
	if strings.TrimSpace(lines[i]) != "00" {
		return out, fmt.Errorf("expected page 00, got %q", lines[i])
	}
	i++
	for row := 0; row < 16; row++ {
		ln := strings.TrimSpace(lines[i+row])
		if len(ln) != 64 {
			return out, fmt.Errorf("row %d has %d characters", row, len(ln))
		}
		for col := 0; col < 16; col++ {
			v, err := strconv.ParseUint(ln[col*4:col*4+4], 16, 16)
			if err != nil {
				return out, err
			}
			out[row*16+col] = rune(v)
		}
	}
	return out, nil
}

func isControl(r rune) bool { return r < 0x20 || (r >= 0x7F && r <= 0x9F) }

// IsPrivateUse reports a private-use code point.
func IsPrivateUse(r rune) bool {
	return (r >= 0xE000 && r <= 0xF8FF) || (r >= 0xF0000 && r <= 0xFFFFD) || (r >= 0x100000 && r <= 0x10FFFD)
}

// macOSOnly are the Mac OS Roman code points absent from PDF MacRomanEncoding.
var macOSOnly = map[int]string{
	0xAD: "notequal", 0xB0: "infinity", 0xB2: "lessequal", 0xB3: "greaterequal", 0xB6: "partialdiff",
	0xB7: "summation", 0xB8: "product", 0xB9: "pi", 0xBA: "integral", 0xBD: "Omega",
	0xC3: "radical", 0xC5: "approxequal", 0xC6: "Delta", 0xD7: "lozenge", 0xF0: "apple",
}

func (t *Table) applyMask() {
	for c := 0; c < 256; c++ {
		r := t.Ref[c]
		switch {
		case c < 0x20:
			t.Why[c] = "C0 control code"
		case r == 0:
			t.Why[c] = "undefined in the reference"
		case isControl(r):
			t.Why[c] = "reference value is a control (hole in the standard)"
		case IsPrivateUse(r):
			t.Why[c] = "reference value is private-use"
		default:
			t.Care[c] = true
		}
	}
	if t.Name == "MacRomanEncoding" {
		for c, g := range macOSOnly {
			t.Care[c] = false
			t.Why[c] = "Mac OS Roman only (" + g + "), undefined in PDF MacRomanEncoding"
		}
		t.Alt[0xDB] = []rune{0x00A4} // PDF: currency; Mac OS Roman (Tcl): Euro
	}
}

// Load returns the reference table for a PDF encoding name.
func Load(name string) (*Table, error) {
	t := &Table{Name: name}
	if f, ok := tclFile[name]; ok {
		b, err := tclFS.ReadFile("tcl/" + f + ".enc")
		if err != nil {
			return nil, err
		}
		ref, err := ParseTcl(string(b))
		if err != nil {
			return nil, fmt.Errorf("%s.enc: %w", f, err)
		}
		t.Ref = ref
		t.Source = "Tcl 8.6 " + f + ".enc"
	} else {
		var src map[int]string
		switch name {
		case "StandardEncoding":
			src = standardNames
		case "PDFDocEncoding":
			src = pdfDocNames
		default:
			return nil, fmt.Errorf("unknown encoding %q", name)
		}
		for c, g := range src {
			r, ok := agl[g]
			if !ok {
				return nil, fmt.Errorf("%s: glyph %q (code %#x) not in the harness AGL subset", name, g, c)
			}
			t.Ref[c] = r
		}
		t.Source = "ISO 32000-1 Annex D transcription"
	}
	t.applyMask()
	return t, nil
}

// alias pairs: right-hand side is the representative.
var alias = map[rune]rune{
	0x220D: 0x220B, // suchthat: SMALL CONTAINS AS MEMBER / CONTAINS AS MEMBER
	0x22C4: 0x25CA, // lozenge: DIAMOND OPERATOR / LOZENGE
	0x2329: 0x3008, // angleleft (NFC maps 2329 -> 3008 anyway)
	0x232A: 0x3009, // angleright
	0x03BC: 0x00B5, // mu
	0x2126: 0x03A9, // Omega (NFC maps 2126 -> 03A9 anyway)
	0x2206: 0x0394, // Delta / increment
	0x00A0: 0x0020, // nbspace / space
	0x00AD: 0x002D, // soft hyphen / hyphen
}

// Canon returns s in NFC with every alias folded to its representative.
func Canon(s string) string {
	s = norm.NFC.String(s)
	var sb strings.Builder
	for _, r := range s {
		if a, ok := alias[r]; ok {
			r = a
		}
		sb.WriteRune(r)
	}
	return sb.String()
}

// Accepts reports whether got is an acceptable decoding of code c.
func (t *Table) Accepts(c int, got string) bool {
	if !t.Care[c] {
		return true
	}
	g := Canon(got)
	if g == Canon(string(t.Ref[c])) {
		return true
	}
	for _, a := range t.Alt[c] {
		if g == Canon(string(a)) {
			return true
		}
	}
	return false
}
