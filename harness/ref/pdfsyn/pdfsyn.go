// Package pdfsyn is an independent model and serialiser of PDF object syntax
// (ISO 32000-1 §7.2, §7.3, §7.8.2) with spelling policies. It shares no code
// with tabula: the harness generates a tree (Obj) or an operator program
// ([]Op), spells it under a Policy and asks tabula's parsers to read it back.
//
// Everything the writer emits is unambiguously legal:
//   - white space is any of NUL, HT, LF, FF, CR, SP (Table 1);
//   - a comment runs from '%' (outside strings) to the next CR or LF and counts
//     as one white-space character (§7.2.3);
//   - two tokens need a separator only if the first ends and the second starts
//     with a regular character (§7.2.2: delimiters terminate the preceding token);
//   - literal strings: balanced parentheses may stay raw, everything else that
//     is special is escaped; \ddd with fewer than three digits is only used when
//     the next character is not a digit; "\"+EOL is a line continuation; CR is
//     never written raw (it would read back as LF) (§7.3.4.2);
//   - hex strings: either case, white space between digits, a final 0 digit
//     may be omitted (§7.3.4.3);
//   - names: '#', white space, delimiters and bytes outside 0x21..0x7E are
//     written as #xx, any other byte may be; NUL is never part of a name (§7.3.5).
package pdfsyn

import (
	"bytes"
	"fmt"
	"math/rand"
	"strconv"
	"strings"
)

// Kind of an object.
type Kind uint8

const (
	KNull Kind = iota
	KBool
	KInt
	KReal
	KString
	KName
	KArray
	KDict
	KRef
	KStream
)

var kindNames = [...]string{"null", "bool", "int", "real", "string", "name", "array", "dict", "ref", "stream"}

func (k Kind) String() string { return kindNames[k] }

// Obj is one node of an object tree.
type Obj struct {
	K    Kind
	B    bool
	I    int64
	Text string  // numbers: the spelled token (legal PDF number); "" = canonical form of I
	S    []byte  // string bytes, name bytes, stream data
	A    []Obj   // array elements
	D    []Entry // dictionary entries in written order, keys unique (also the stream dictionary)
	Num  int     // reference
	Gen  int
}

// Entry is one dictionary entry.
type Entry struct {
	Key []byte
	Val Obj
}

// Float is the value of a KReal (or KInt) object: the decimal numeral read by
// the Go standard library (correctly rounded), after normalising the PDF forms
// "4." and ".5" that Go also accepts.
func (o Obj) Float() float64 {
	if o.K == KInt {
		return float64(o.I)
	}
	t := o.Text
	f, err := strconv.ParseFloat(t, 64)
	if err != nil {
		panic("pdfsyn: bad real " + t)
	}
	return f
}

// Depth of a tree (scalars have depth 1).
func (o Obj) Depth() int {
	d := 0
	for _, e := range o.A {
		if x := e.Depth(); x > d {
			d = x
		}
	}
	for _, e := range o.D {
		if x := e.Val.Depth(); x > d {
			d = x
		}
	}
	return d + 1
}

// Describe renders a tree in a canonical, spelling-independent form (used as
// case descriptor and in witnesses).
func (o Obj) Describe() string {
	var sb strings.Builder
	o.describe(&sb)
	return sb.String()
}

func (o Obj) describe(sb *strings.Builder) {
	switch o.K {
	case KNull:
		sb.WriteString("null")
	case KBool:
		fmt.Fprintf(sb, "%v", o.B)
	case KInt:
		fmt.Fprintf(sb, "i%d", o.I)
	case KReal:
		fmt.Fprintf(sb, "r%s", o.Text)
	case KString:
		fmt.Fprintf(sb, "s%q", o.S)
	case KName:
		fmt.Fprintf(sb, "n%q", o.S)
	case KRef:
		fmt.Fprintf(sb, "%d_%d_R", o.Num, o.Gen)
	case KArray:
		sb.WriteByte('[')
		for i, e := range o.A {
			if i > 0 {
				sb.WriteByte(' ')
			}
			e.describe(sb)
		}
		sb.WriteByte(']')
	case KDict, KStream:
		sb.WriteString("<<")
		for i, e := range o.D {
			if i > 0 {
				sb.WriteByte(' ')
			}
			fmt.Fprintf(sb, "%q:", e.Key)
			e.Val.describe(sb)
		}
		sb.WriteString(">>")
		if o.K == KStream {
			fmt.Fprintf(sb, "stream%q", o.S)
		}
	}
}

// Op is one content-stream operation.
type Op struct {
	Operator string
	Operands []Obj
	// RawAfter, if not nil, is written verbatim after the operator, preceded
	// by one white-space byte and followed by an end-of-line (the sample data
	// of an inline image after ID, §8.9.7).
	RawAfter []byte
}

// ---------------------------------------------------------------------------
// Spelling policies

type WS int

const (
	WSMinimal  WS = iota // separators only where two regular characters would touch
	WSSingle             // one space between all tokens
	WSMaximal            // runs of all six white-space bytes around every token
	WSComments           // comments (and white space) between tokens
)

type EOL int

const (
	LF EOL = iota
	CR
	CRLF
)

type StrMode int

const (
	StrLiteral StrMode = iota // literal strings, raw bytes wherever legal, balanced parens raw
	StrEscaped                // literal strings, named and octal escapes, line continuations
	StrHex                    // hexadecimal strings
	StrMixed                  // per string / per byte random
)

type NameMode int

const (
	NamePlain NameMode = iota // #xx only where required or recommended
	NameHash                  // #xx also for regular characters
)

var (
	WSNames   = []string{"ws-minimal", "ws-single", "ws-maximal", "ws-comments"}
	EOLNames  = []string{"LF", "CR", "CRLF"}
	StrNames  = []string{"str-literal", "str-escaped", "str-hex", "str-mixed"}
	NameNames = []string{"name-plain", "name-hash"}
)

// Policy selects one spelling of everything.
type Policy struct {
	WS   WS
	EOL  EOL
	Str  StrMode
	Name NameMode
	// NoComments forbids comments even under WSComments (used to neutralise
	// the comment feature in counterfactual runs).
	NoComments bool
	// RawEOL lets a data LF inside a literal string be spelled as an
	// unescaped CR or CR LF; NoRawEOL neutralises exactly that choice.
	RawEOL   bool
	NoRawEOL bool
}

func (p Policy) String() string {
	return WSNames[p.WS] + "," + EOLNames[p.EOL] + "," + StrNames[p.Str] + "," + NameNames[p.Name]
}

func (e EOL) bytes() string { return [...]string{"\n", "\r", "\r\n"}[e] }

// ---------------------------------------------------------------------------
// Writer

// Writer spells tokens into a buffer, inserting separators by policy.
type Writer struct {
	P Policy
	R *rand.Rand

	buf      bytes.Buffer
	lastReg  bool // previous token ended with a regular character
	any      bool // something has been written
	Features map[string]int
}

// NewWriter makes a writer; all random spelling choices come from r.
func NewWriter(p Policy, r *rand.Rand) *Writer {
	return &Writer{P: p, R: r, Features: map[string]int{}}
}

func (w *Writer) Bytes() []byte { return w.buf.Bytes() }
func (w *Writer) Len() int      { return w.buf.Len() }

func (w *Writer) feat(s string) { w.Features[s]++ }

const wsBytes = "\x00\t\n\x0c\r "

func isWS(b byte) bool { return b == 0 || b == '\t' || b == '\n' || b == '\f' || b == '\r' || b == ' ' }
func isDelim(b byte) bool {
	switch b {
	case '(', ')', '<', '>', '[', ']', '{', '}', '/', '%':
		return true
	}
	return false
}
func isRegular(b byte) bool { return !isWS(b) && !isDelim(b) }

var commentBodies = []string{
	"", " comment", "%EOF", "PDF-1.7", " (unbalanced", " ) ] >>", "<< /A 1", " 1 0 R", " endobj", " stream",
	" true]", "\t\x00tab and nul", " caf\xe9 \xff", " Tj ' \"", "/Name", " \\", "BT ET", " 12 0 obj",
}

func (w *Writer) comment() {
	w.buf.WriteByte('%')
	w.buf.WriteString(commentBodies[w.R.Intn(len(commentBodies))])
	w.buf.WriteString(w.P.EOL.bytes())
	w.feat("comment")
}

func (w *Writer) wsRun(min, max int) {
	n := min
	if max > min {
		n += w.R.Intn(max - min + 1)
	}
	for i := 0; i < n; i++ {
		b := wsBytes[w.R.Intn(len(wsBytes))]
		w.buf.WriteByte(b)
		w.feat(fmt.Sprintf("ws-%02x", b))
	}
}

// sep writes the separator in front of a token that starts with a regular
// character (startReg) or a delimiter.
func (w *Writer) sep(startReg bool) {
	need := w.any && w.lastReg && startReg
	switch w.P.WS {
	case WSMinimal:
		if need {
			if w.R.Intn(4) == 0 {
				w.wsRun(1, 1)
			} else {
				w.buf.WriteByte(' ')
			}
		} else if w.any {
			w.feat("adjacent-tokens")
		}
	case WSSingle:
		if w.any {
			w.buf.WriteByte(' ')
		}
	case WSMaximal:
		if need {
			w.wsRun(1, 4)
		} else {
			w.wsRun(0, 4)
		}
	case WSComments:
		if w.P.NoComments {
			if need || w.R.Intn(2) == 0 {
				w.buf.WriteByte(' ')
			}
			return
		}
		switch w.R.Intn(4) {
		case 0: // comment as the only separator
			w.comment()
			if need {
				w.feat("comment-sole-separator")
			}
		case 1:
			w.wsRun(1, 2)
			w.comment()
			w.wsRun(0, 2)
		case 2:
			w.comment()
			w.comment()
		default:
			if need {
				w.buf.WriteByte(' ')
			}
		}
	}
}

// Tok writes one raw token (keyword, operator, number, or delimiter token).
func (w *Writer) Tok(t string) {
	w.sep(isRegular(t[0]))
	w.buf.WriteString(t)
	w.lastReg = isRegular(t[len(t)-1])
	w.any = true
}

// Raw appends bytes with no separator logic (stream framing).
func (w *Writer) Raw(b []byte, endsRegular bool) {
	w.buf.Write(b)
	w.lastReg = endsRegular
	w.any = true
}

// Obj writes an object tree.
func (w *Writer) Obj(o Obj) {
	switch o.K {
	case KNull:
		w.Tok("null")
	case KBool:
		if o.B {
			w.Tok("true")
		} else {
			w.Tok("false")
		}
	case KInt:
		if o.Text != "" {
			w.Tok(o.Text)
		} else {
			w.Tok(strconv.FormatInt(o.I, 10))
		}
	case KReal:
		w.Tok(o.Text)
	case KString:
		w.str(o.S)
	case KName:
		w.name(o.S)
	case KRef:
		w.Tok(strconv.Itoa(o.Num))
		w.Tok(strconv.Itoa(o.Gen))
		w.Tok("R")
	case KArray:
		w.Tok("[")
		for _, e := range o.A {
			w.Obj(e)
		}
		w.Tok("]")
	case KDict:
		w.dict(o.D)
	case KStream:
		panic("pdfsyn: a stream can only be written by IndirectObject")
	}
}

func (w *Writer) dict(d []Entry) {
	w.Tok("<<")
	for _, e := range d {
		w.name(e.Key)
		w.Obj(e.Val)
	}
	w.Tok(">>")
}

// Program writes a content-stream program; spans[i] is the byte range of the
// operands of operation i (empty when it has none).
func (w *Writer) Program(ops []Op) (spans [][2]int) {
	for _, op := range ops {
		start := -1
		for _, a := range op.Operands {
			before := w.Len()
			w.Obj(a)
			if start < 0 {
				// the operand text proper starts after its separator; a
				// separator in front is harmless inside "[ ... ]" anyway
				start = before
			}
		}
		end := w.Len()
		if start < 0 {
			start = end
		}
		spans = append(spans, [2]int{start, end})
		w.Tok(op.Operator)
		if op.RawAfter != nil {
			w.buf.WriteByte(" \n\r"[w.R.Intn(3)])
			w.buf.Write(op.RawAfter)
			w.buf.WriteString(w.P.EOL.bytes())
			w.lastReg = false
			w.feat("inline-image-data")
		}
	}
	if w.P.WS == WSMaximal || (w.P.WS == WSComments && !w.P.NoComments && w.R.Intn(2) == 0) {
		w.sep(false) // trailing white space / comment
	}
	return spans
}

// IndirectObject writes "num gen obj <object> endobj"; a KStream object is
// written as dictionary + stream framing. The /Length entry must already be
// part of o.D (see WithLength).
func (w *Writer) IndirectObject(num, gen int, o Obj) {
	w.Tok(strconv.Itoa(num))
	w.Tok(strconv.Itoa(gen))
	w.Tok("obj")
	if o.K != KStream {
		w.Obj(o)
		w.Tok("endobj")
		return
	}
	w.dict(o.D)
	w.Tok("stream")
	// §7.3.8.1: "stream" is followed by CRLF or LF, never CR alone
	if w.P.EOL == LF || (w.P.EOL == CR && w.R.Intn(2) == 0) {
		w.Raw([]byte("\n"), false)
		w.feat("stream-eol-LF")
	} else {
		w.Raw([]byte("\r\n"), false)
		w.feat("stream-eol-CRLF")
	}
	w.Raw(o.S, false)
	// an end-of-line marker before endstream is recommended, not required
	switch w.R.Intn(4) {
	case 0:
		w.feat("endstream-no-eol")
	default:
		w.Raw([]byte(w.P.EOL.bytes()), false)
	}
	w.lastReg = false
	w.buf.WriteString("endstream")
	w.lastReg = true
	w.Tok("endobj")
}

// WithLength returns the stream object with a direct /Length entry inserted
// at a random position of its dictionary.
func WithLength(o Obj, r *rand.Rand) Obj {
	e := Entry{Key: []byte("Length"), Val: Obj{K: KInt, I: int64(len(o.S))}}
	pos := r.Intn(len(o.D) + 1)
	d := append([]Entry{}, o.D[:pos]...)
	d = append(d, e)
	d = append(d, o.D[pos:]...)
	o.D = d
	return o
}

// ---------------------------------------------------------------------------
// strings

func (w *Writer) str(s []byte) {
	mode := w.P.Str
	if mode == StrMixed {
		mode = StrMode(w.R.Intn(3))
	}
	if mode == StrHex {
		w.hexString(s)
		return
	}
	w.literalString(s, mode == StrEscaped || (w.P.Str == StrMixed && w.R.Intn(2) == 0))
}

func (w *Writer) hexString(s []byte) {
	w.sep(false)
	w.feat("hex-string")
	upper := w.R.Intn(2) == 0
	mixed := w.R.Intn(4) == 0
	wsp := 0.0
	if w.P.WS == WSMaximal || w.R.Intn(4) == 0 {
		wsp = 0.25
	}
	digits := make([]byte, 0, 2*len(s))
	for _, b := range s {
		for _, n := range []byte{b >> 4, b & 15} {
			up := upper
			if mixed {
				up = w.R.Intn(2) == 0
			}
			if up {
				digits = append(digits, "0123456789ABCDEF"[n])
			} else {
				digits = append(digits, "0123456789abcdef"[n])
			}
		}
	}
	if len(digits) > 0 && digits[len(digits)-1] == '0' && w.R.Intn(2) == 0 {
		digits = digits[:len(digits)-1]
		w.feat("hex-odd-digits")
	}
	w.buf.WriteByte('<')
	ws := func() {
		for wsp > 0 && w.R.Float64() < wsp {
			w.buf.WriteByte(wsBytes[w.R.Intn(len(wsBytes))])
			w.feat("hex-embedded-ws")
		}
	}
	ws()
	for _, d := range digits {
		w.buf.WriteByte(d)
		ws()
	}
	w.buf.WriteByte('>')
	w.lastReg = false
	w.any = true
}

func (w *Writer) literalString(s []byte, escaped bool) {
	w.sep(false)
	w.feat("literal-string")
	// which parentheses are balanced pairs that may stay raw
	raw := make([]bool, len(s))
	var stack []int
	for i, b := range s {
		switch b {
		case '(':
			stack = append(stack, i)
		case ')':
			if len(stack) > 0 {
				j := stack[len(stack)-1]
				stack = stack[:len(stack)-1]
				keep := !escaped || w.R.Intn(2) == 0
				raw[i], raw[j] = keep, keep
			}
		}
	}
	// a raw pair is only balanced if every raw paren between is too; since
	// pairs are properly nested by construction, any subset of pairs is balanced.
	w.buf.WriteByte('(')
	octal := func(b byte, next int) {
		// short form only when the following character cannot be taken for a digit
		short := w.R.Intn(2) == 0
		if next < len(s) && s[next] >= '0' && s[next] <= '9' {
			short = false
		}
		if short {
			fmt.Fprintf(&w.buf, "\\%o", b)
			w.feat("octal-short")
		} else {
			fmt.Fprintf(&w.buf, "\\%03o", b)
			w.feat("octal-3")
		}
	}
	named := map[byte]byte{'\n': 'n', '\r': 'r', '\t': 't', '\b': 'b', '\f': 'f'}
	for i, b := range s {
		// line continuation between two bytes (never in front of a raw LF:
		// "\" CR LF would swallow it)
		if escaped && w.R.Intn(12) == 0 && b != '\n' {
			w.buf.WriteByte('\\')
			w.buf.WriteString([]string{"\n", "\r", "\r\n"}[w.R.Intn(3)])
			w.feat("line-continuation")
		}
		switch {
		case b == '(' || b == ')':
			if raw[i] {
				w.buf.WriteByte(b)
				w.feat("raw-balanced-paren")
			} else if w.R.Intn(4) == 0 {
				octal(b, i+1)
			} else {
				w.buf.WriteByte('\\')
				w.buf.WriteByte(b)
				w.feat("escaped-paren")
			}
		case b == '\\':
			if w.R.Intn(4) == 0 {
				octal(b, i+1)
			} else {
				w.buf.WriteString("\\\\")
				w.feat("escaped-backslash")
			}
		case b == '\r':
			if w.R.Intn(2) == 0 {
				w.buf.WriteString("\\r")
				w.feat("named-escape")
			} else {
				octal(b, i+1)
			}
		case named[b] != 0:
			switch {
			case !escaped && w.R.Intn(3) > 0:
				// raw LF, HT, BS, FF are themselves. A data LF may also be
				// written as a raw CR or CR LF: an unescaped end-of-line
				// marker reads as one LF whichever of the three it is
				// (§7.3.4.2). Not in front of another LF (CR LF would merge).
				v := w.R.Intn(3) // drawn unconditionally: neutralising the feature must not shift the stream
				if b == '\n' && w.P.RawEOL && !w.P.NoRawEOL && v > 0 && !(i+1 < len(s) && s[i+1] == '\n') {
					w.buf.WriteString([]string{"", "\r", "\r\n"}[v])
					w.feat("raw-eol-cr-in-string")
				} else {
					w.buf.WriteByte(b)
					w.feat("raw-control")
				}
			case w.R.Intn(2) == 0:
				w.buf.WriteByte('\\')
				w.buf.WriteByte(named[b])
				w.feat("named-escape")
			default:
				octal(b, i+1)
			}
		case escaped && (b < 0x20 || b >= 0x7f || w.R.Intn(6) == 0):
			octal(b, i+1)
		default:
			w.buf.WriteByte(b)
			if b < 0x20 || b >= 0x7f {
				w.feat("raw-binary")
			}
		}
	}
	w.buf.WriteByte(')')
	w.lastReg = false
	w.any = true
}

// ---------------------------------------------------------------------------
// names

func (w *Writer) name(n []byte) {
	w.sep(false)
	w.buf.WriteByte('/')
	if len(n) == 0 {
		w.feat("empty-name")
	}
	for _, b := range n {
		if b == 0 {
			// ISO 32000-1 7.3.5 takes the null character out of what a name may hold; the
			// #-notation can still spell it, and the property speaks of arbitrary bytes
			w.feat("name-nul-byte")
		}
		must := b == '#' || !isRegular(b) || b < 0x21 || b > 0x7e
		if b >= 0x80 && w.P.Name == NamePlain && w.R.Intn(4) == 0 {
			must = false // raw high byte: legal, merely not recommended
			w.feat("name-raw-high-byte")
		}
		if must || (w.P.Name == NameHash && w.R.Intn(3) == 0) {
			if w.R.Intn(2) == 0 {
				fmt.Fprintf(&w.buf, "#%02X", b)
			} else {
				fmt.Fprintf(&w.buf, "#%02x", b)
			}
			w.feat("name-hash-escape")
		} else {
			w.buf.WriteByte(b)
		}
	}
	// a name ends with a regular character unless it is the empty name "/";
	// "/" followed by a regular character would read as a longer name, so
	// treat it as regular-ended too.
	w.lastReg = true
	w.any = true
}

// NeedsEscape reports whether spelling the tree requires at least one escape
// (string byte that cannot be written raw in a literal string, or a name byte
// that needs #xx).
func (o Obj) NeedsEscape() bool {
	switch o.K {
	case KString:
		depth := 0
		for _, b := range o.S {
			switch b {
			case '\\', '\r':
				return true
			case '(':
				depth++
			case ')':
				depth--
				if depth < 0 {
					return true
				}
			}
		}
		return depth != 0
	case KName:
		for _, b := range o.S {
			if b == '#' || !isRegular(b) || b < 0x21 || b > 0x7e {
				return true
			}
		}
	}
	for _, e := range o.A {
		if e.NeedsEscape() {
			return true
		}
	}
	for _, e := range o.D {
		if (Obj{K: KName, S: e.Key}).NeedsEscape() || e.Val.NeedsEscape() {
			return true
		}
	}
	return false
}
