// Package imaging is an independent reference interpreter for the part of the
// PDF imaging model that decides where text is placed (ISO 32000-1 §8.3.4,
// §8.4.2–8.4.4, §8.10, §9.3, §9.4). It has its own 3x3 matrices in the
// row-vector convention of the specification (p' = p x M) and shares no code
// with tabula.
//
//	cm        CTM  = M x CTM                                   (§8.4.4, Table 57)
//	q / Q     push / pop the graphics state (CTM and text state parameters)
//	BT        Tm = Tlm = I                                     (Table 107)
//	Tm        Tm = Tlm = M                                     (Table 108)
//	Td        Tm = Tlm = [1 0 0 1 tx ty] x Tlm
//	TD        TL = -ty, then Td
//	T*        0 -TL Td
//	'         T*, then show
//	"         Tw = aw, Tc = ac, then '
//	Do        q, CTM = Matrix x CTM, run the form, Q           (§8.10.1)
//	Tf TL Tc Tw Tz   change text state parameters only
//
// A shown string starts at the text-space origin mapped through Tm and then
// CTM: (0,0) x Tm x CTM (§9.4.4; text rise is not generated). Glyph advances
// are NOT modelled: only the first show after a positioning step has a
// predicted origin (Show.Comparable).
package imaging

import "math"

// M3 is a 3x3 matrix, row-vector convention; an affine PDF matrix
// [a b c d e f] is {{a,b,0},{c,d,0},{e,f,1}}.
type M3 [3][3]float64

func Identity() M3 { return M3{{1, 0, 0}, {0, 1, 0}, {0, 0, 1}} }

func FromPDF(a, b, c, d, e, f float64) M3 { return M3{{a, b, 0}, {c, d, 0}, {e, f, 1}} }

// Mul returns A x B (apply A first, then B).
func Mul(A, B M3) M3 {
	var C M3
	for i := 0; i < 3; i++ {
		for j := 0; j < 3; j++ {
			s := 0.0
			for k := 0; k < 3; k++ {
				s += A[i][k] * B[k][j]
			}
			C[i][j] = s
		}
	}
	return C
}

// Apply maps the row vector (x, y, 1).
func (m M3) Apply(x, y float64) (float64, float64) {
	return x*m[0][0] + y*m[1][0] + m[2][0], x*m[0][1] + y*m[1][1] + m[2][1]
}

func (m M3) abs() M3 {
	var r M3
	for i := range m {
		for j := range m[i] {
			r[i][j] = math.Abs(m[i][j])
		}
	}
	return r
}

// SingularValues of the linear (upper-left 2x2) part: the largest and the
// smallest factor by which the matrix scales a vector.
func (m M3) SingularValues() (max, min float64) {
	a, b, c, d := m[0][0], m[0][1], m[1][0], m[1][1]
	s := a*a + b*b + c*c + d*d
	det := a*d - b*c
	disc := s*s - 4*det*det
	if disc < 0 {
		disc = 0
	}
	r := math.Sqrt(disc)
	max = math.Sqrt((s + r) / 2)
	lo := (s - r) / 2
	if lo < 0 {
		lo = 0
	}
	min = math.Sqrt(lo)
	return
}

// IsTranslation reports whether the linear part is the identity.
func (m M3) IsTranslation() bool {
	return m[0][0] == 1 && m[0][1] == 0 && m[1][0] == 0 && m[1][1] == 1
}

// Op is one operation of a program, already evaluated to numbers.
type Op struct {
	Name string    // operator
	Args []float64 // numeric operands in order
	Text string    // shown string (Tj ' ")
	Ref  string    // font name (Tf) or form name (Do), without '/'
}

// Form is a Form XObject.
type Form struct {
	HasMatrix bool
	Matrix    [6]float64
	Ops       []Op
}

// Show is the prediction for one text-showing operation.
type Show struct {
	Text       string
	Operator   string
	Comparable bool    // first show after a positioning step: X, Y are predicted
	X, Y       float64 // predicted device-space origin
	Mag        float64 // sum of the absolute values of the terms that make up X / Y (for the relative tolerance)
	SizeLo     float64 // bounds of the reported font size: |Tfs| x sigma_min(Tm) x sigma_min(CTM)
	SizeHi     float64 //                                    |Tfs| x sigma_max(Tm) x sigma_max(CTM)
	Exact      bool    // both linear parts are similarities: SizeLo == SizeHi up to rounding
	Font       string
	FormDepth  int
	NonTrivial bool // a non-translation matrix and a positioning operator contributed
}

// Line is the prediction for one stroked straight segment "x0 y0 m x1 y1 l S".
type Line struct {
	X0, Y0, X1, Y1 float64
	Mag            float64
}

type gstate struct {
	ctm, absCTM        M3
	tc, tw, tz, tl, fs float64
	font               string
	nonTrivCTM         bool
}

// Interp is the interpreter state.
type Interp struct {
	gs    gstate
	stack []gstate

	tm, tlm, absTm, absTlm M3
	fresh                  bool // a positioning step happened since the last show
	positioned             bool // a positioning operator other than BT since BT
	nonTrivTm              bool

	Forms map[string]Form
	depth int

	Shows []Show
	Lines []Line

	path    [][2]float64
	MaxQ    int
	Err     string // structural error of the program itself (generator bug)
	OpsSeen map[string]int
}

// New returns an interpreter in the initial state (CTM = I, Tz = 100, no font).
func New(forms map[string]Form) *Interp {
	return &Interp{
		gs:      gstate{ctm: Identity(), absCTM: Identity(), tz: 100},
		Forms:   forms,
		OpsSeen: map[string]int{},
	}
}

func pdf(a []float64) M3 { return FromPDF(a[0], a[1], a[2], a[3], a[4], a[5]) }

// Run interprets the operations.
func (in *Interp) Run(ops []Op) {
	for _, op := range ops {
		in.OpsSeen[op.Name]++
		switch op.Name {
		case "q":
			in.stack = append(in.stack, in.gs)
			if len(in.stack) > in.MaxQ {
				in.MaxQ = len(in.stack)
			}
		case "Q":
			if len(in.stack) == 0 {
				in.Err = "Q without q"
				return
			}
			in.gs = in.stack[len(in.stack)-1]
			in.stack = in.stack[:len(in.stack)-1]
		case "cm":
			m := pdf(op.Args)
			in.gs.ctm = Mul(m, in.gs.ctm)
			in.gs.absCTM = Mul(m.abs(), in.gs.absCTM)
			if !m.IsTranslation() {
				in.gs.nonTrivCTM = true
			}
		case "BT":
			in.tm, in.tlm = Identity(), Identity()
			in.absTm, in.absTlm = Identity(), Identity()
			in.fresh = true
			in.positioned = false
			in.nonTrivTm = false
		case "ET":
		case "Tf":
			in.gs.font, in.gs.fs = op.Ref, op.Args[0]
		case "TL":
			in.gs.tl = op.Args[0]
		case "Tc":
			in.gs.tc = op.Args[0]
		case "Tw":
			in.gs.tw = op.Args[0]
		case "Tz":
			in.gs.tz = op.Args[0]
		case "Tm":
			m := pdf(op.Args)
			in.tm, in.tlm = m, m
			in.absTm, in.absTlm = m.abs(), m.abs()
			in.fresh, in.positioned = true, true
			in.nonTrivTm = !m.IsTranslation()
		case "Td":
			in.td(op.Args[0], op.Args[1])
		case "TD":
			in.gs.tl = -op.Args[1]
			in.td(op.Args[0], op.Args[1])
		case "T*":
			in.td(0, -in.gs.tl)
		case "Tj", "TJ": // TJ here is "[(string) number] TJ": the string is placed like a Tj
			in.show(op)
		case "'":
			in.td(0, -in.gs.tl)
			in.show(op)
		case "\"":
			in.gs.tw, in.gs.tc = op.Args[0], op.Args[1]
			in.td(0, -in.gs.tl)
			in.show(op)
		case "Do":
			f, ok := in.Forms[op.Ref]
			if !ok {
				in.Err = "unknown form " + op.Ref
				return
			}
			in.stack = append(in.stack, in.gs)
			if f.HasMatrix {
				m := pdf(f.Matrix[:])
				in.gs.ctm = Mul(m, in.gs.ctm)
				in.gs.absCTM = Mul(m.abs(), in.gs.absCTM)
				if !m.IsTranslation() {
					in.gs.nonTrivCTM = true
				}
			}
			in.depth++
			in.Run(f.Ops)
			in.depth--
			if in.Err != "" {
				return
			}
			in.gs = in.stack[len(in.stack)-1]
			in.stack = in.stack[:len(in.stack)-1]
		case "m":
			in.path = [][2]float64{{op.Args[0], op.Args[1]}}
		case "l":
			in.path = append(in.path, [2]float64{op.Args[0], op.Args[1]})
		case "S":
			if in.depth == 0 {
				for i := 0; i+1 < len(in.path); i++ {
					var l Line
					l.X0, l.Y0 = in.gs.ctm.Apply(in.path[i][0], in.path[i][1])
					l.X1, l.Y1 = in.gs.ctm.Apply(in.path[i+1][0], in.path[i+1][1])
					for _, p := range in.path[i : i+2] {
						mx, my := in.gs.absCTM.Apply(math.Abs(p[0]), math.Abs(p[1]))
						l.Mag = math.Max(l.Mag, math.Max(mx, my))
					}
					in.Lines = append(in.Lines, l)
				}
			}
			in.path = nil
		default:
			in.Err = "unknown operator " + op.Name
			return
		}
	}
}

func (in *Interp) td(tx, ty float64) {
	t := FromPDF(1, 0, 0, 1, tx, ty)
	in.tlm = Mul(t, in.tlm)
	in.absTlm = Mul(t.abs(), in.absTlm)
	in.tm, in.absTm = in.tlm, in.absTlm
	in.fresh, in.positioned = true, true
}

func (in *Interp) show(op Op) {
	if op.Text == "" {
		return // a string without character codes paints nothing and advances nothing
	}
	trm := Mul(in.tm, in.gs.ctm)
	x, y := trm.Apply(0, 0)
	atrm := Mul(in.absTm, in.gs.absCTM)
	mx, my := atrm.Apply(0, 0)
	tmax, tmin := in.tm.SingularValues()
	cmax, cmin := in.gs.ctm.SingularValues()
	fs := math.Abs(in.gs.fs)
	s := Show{
		Text: op.Text, Operator: op.Name, Comparable: in.fresh,
		X: x, Y: y, Mag: math.Max(mx, my),
		SizeLo: fs * tmin * cmin, SizeHi: fs * tmax * cmax,
		Font: in.gs.font, FormDepth: in.depth,
		NonTrivial: in.fresh && in.positioned && (in.nonTrivTm || in.gs.nonTrivCTM),
	}
	s.Exact = s.SizeHi-s.SizeLo <= 1e-9*s.SizeHi
	in.Shows = append(in.Shows, s)
	in.fresh = false
}
