// Package rfc4180 is a strict reader for delimiter-separated text after
// RFC 4180 §2 (ABNF), written for the C14 oracle. It is independent of
// encoding/csv and, unlike it, changes nothing it reads (no CRLF→LF
// normalisation inside quoted fields, no trimming, no lazy quotes).
//
//	file        = record *(EOL record) [EOL]
//	record      = field *(DELIM field)
//	field       = escaped / non-escaped
//	escaped     = DQUOTE *(any char except DQUOTE / 2DQUOTE) DQUOTE
//	non-escaped = *(any char except DELIM, DQUOTE, CR, LF)
//	EOL         = CRLF / LF
//
// Two deliberate relaxations, both in the accepting direction and both common
// to every CSV reader in use: a bare LF ends a record as CRLF does, and
// TEXTDATA is any character (RFC 4180 itself only speaks of printable ASCII).
// Everything else is an error: a quote inside an unquoted field, text after a
// closing quote, an unterminated quoted field, a bare CR outside quotes,
// records of different lengths, invalid UTF-8.
package rfc4180

import (
	"fmt"
	"unicode/utf8"
)

// Error locates a syntax error.
type Error struct {
	Record int // 0-based record number
	Offset int // byte offset
	Msg    string
}

func (e *Error) Error() string {
	return fmt.Sprintf("record %d, byte %d: %s", e.Record, e.Offset, e.Msg)
}

// Parse reads all records. An empty input has no records.
func Parse(data string, delim rune) ([][]string, error) {
	if delim == '"' || delim == '\r' || delim == '\n' || delim == utf8.RuneError || !utf8.ValidRune(delim) {
		return nil, &Error{0, 0, "invalid delimiter"}
	}
	if !utf8.ValidString(data) {
		return nil, &Error{0, 0, "input is not valid UTF-8"}
	}
	d := string(delim)
	var records [][]string
	i := 0
	n := len(data)
	for i < n {
		var rec []string
		for { // fields of one record
			var field []byte
			if i < n && data[i] == '"' {
				start := i
				i++
				closed := false
				for i < n {
					if data[i] == '"' {
						if i+1 < n && data[i+1] == '"' {
							field = append(field, '"')
							i += 2
							continue
						}
						i++
						closed = true
						break
					}
					field = append(field, data[i])
					i++
				}
				if !closed {
					return records, &Error{len(records), start, "quoted field is not terminated"}
				}
				if i < n && !hasPrefixAt(data, i, d) && data[i] != '\n' && !(data[i] == '\r' && i+1 < n && data[i+1] == '\n') {
					return records, &Error{len(records), i, fmt.Sprintf("%q after closing quote", data[i])}
				}
			} else {
				for i < n && !hasPrefixAt(data, i, d) && data[i] != '\n' && data[i] != '\r' {
					if data[i] == '"' {
						return records, &Error{len(records), i, "quote inside an unquoted field"}
					}
					field = append(field, data[i])
					i++
				}
				if i < n && data[i] == '\r' && !(i+1 < n && data[i+1] == '\n') {
					return records, &Error{len(records), i, "bare CR outside a quoted field"}
				}
			}
			rec = append(rec, string(field))
			if i < n && hasPrefixAt(data, i, d) {
				i += len(d)
				continue // next field (possibly empty, also at end of input)
			}
			break
		}
		// end of record
		if i < n {
			if data[i] == '\r' {
				i += 2
			} else {
				i++
			}
		}
		if len(records) > 0 && len(rec) != len(records[0]) {
			return records, &Error{len(records), i, fmt.Sprintf("record has %d fields, the first record has %d", len(rec), len(records[0]))}
		}
		records = append(records, rec)
	}
	return records, nil
}

func hasPrefixAt(s string, i int, p string) bool {
	return len(s)-i >= len(p) && s[i:i+len(p)] == p
}
