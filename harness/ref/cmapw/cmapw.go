// Package cmapw renders a code->text map into a ToUnicode CMap program
// (ISO 32000-1 §9.10.3, Adobe Technical Notes #5014 and #5411) under seed-chosen
// formatting policies. It is written from the specifications and shares no
// code with tabula. The generating Map is the oracle for whatever a CMap
// reader makes of the program.
package cmapw

import (
	"bytes"
	"fmt"
	"math/rand"
	"sort"
	"strings"
	"unicode/utf16"
)

// Entry maps one character code (1..4 bytes, big endian) to its text.
type Entry struct {
	Code []byte
	Text string
}

// Space is one codespace range; Lo and Hi have the same length and a code c
// of that length is inside iff Lo[i] <= c[i] <= Hi[i] for every byte.
type Space struct{ Lo, Hi []byte }

// Contains reports whether code lies in the range.
func (s Space) Contains(code []byte) bool {
	if len(code) != len(s.Lo) {
		return false
	}
	for i := range code {
		if code[i] < s.Lo[i] || code[i] > s.Hi[i] {
			return false
		}
	}
	return true
}

// Map is the logical content of a ToUnicode CMap.
type Map struct {
	Spaces  []Space
	Entries []Entry // codes unique
}

// Policy is one formatting of a Map.
type Policy struct {
	Layout     string  // lines | crlf | cr | oneline
	Tight      bool    // no blank between the tokens of one entry: <00><0041>
	UpperHex   bool    //
	PRange     float64 // probability that a run of consecutive codes becomes a bfrange
	PArray     float64 // probability that such a bfrange uses the array form
	MaxSection int     // 1..100 entries per section
	ArrayBreak int     // line break after this many array elements (0 = never; line layouts only)
	HexBlank   bool    // blank between the UTF-16 units inside a target: <d83d dc4b>
	FullHeader bool    // full Adobe boilerplate vs. the minimum
	Grouped    bool    // all bfchar sections first, then all bfrange sections (else in code order)
	// SectionOrder: "" sections in code order | "reverse" | "shuffle" — the sections
	// of a CMap may come in any order (entries inside a section stay ascending)
	SectionOrder string
	// Comments: PostScript comments (the DSC header real CMap resources start with,
	// and a comment line in front of every section); line layouts only — in the
	// one-line layout a comment would run to the end of the program
	Comments bool
	// Damaged: one extra entry whose target is not a hex string (<00ZZ>) or not a
	// whole number of UTF-16 units (<004200>) is written into one section, for a
	// code that no entry of the map uses: nothing the map specifies depends on it
	Damaged bool
}

func (p Policy) String() string {
	return fmt.Sprintf("%s tight=%v upper=%v prange=%.2f parray=%.2f maxsec=%d abreak=%d hexblank=%v full=%v grouped=%v",
		p.Layout, p.Tight, p.UpperHex, p.PRange, p.PArray, p.MaxSection, p.ArrayBreak, p.HexBlank, p.FullHeader, p.Grouped) + " sections=" + p.SectionOrder + fmt.Sprintf(" comments=%v damaged=%v", p.Comments, p.Damaged)
}

// Stats says what the rendered program contains.
type Stats struct {
	BfChar, RangeOffset, RangeArray int // entries (not codes) of each form
	CharSections, RangeSections     int
	MixedRangeSections              int // bfrange sections holding both forms
	CodesInRanges                   int
	MultiUnitOffsetRanges           int               // offset-form ranges whose target has >1 UTF-16 unit
	ArraysSharingLine               int               // array-form entries that share a physical line with another entry
	MaxSectionEntries               int               // largest number of entries in one section (<= 100)
	MaxArrayLen                     int               // longest array of an array-form entry
	DamagedSection                  string            // "" | "bfchar #k of n" | "bfrange #k of n": where the damaged extra entry went
	Form                            map[string]string // string(code) -> char | offset | array
}

// Units returns the UTF-16 code units of s.
func Units(s string) []uint16 { return utf16.Encode([]rune(s)) }

// OffsetText is the text of the k-th code of an offset-form bfrange whose
// first target is base: the last byte of the UTF-16BE string is incremented
// by k. ok is false when that would carry out of the last byte (the CMap
// specification does not allow such a range).
func OffsetText(base string, k int) (string, bool) {
	u := Units(base)
	if len(u) == 0 {
		return "", false
	}
	last := u[len(u)-1]
	if int(last&0xFF)+k > 0xFF {
		return "", false
	}
	v := append([]uint16{}, u...)
	v[len(v)-1] = last + uint16(k)
	return string(utf16.Decode(v)), true
}

type item struct {
	kind    string // char | offset | array
	entries []Entry
}

func consecutive(a, b []byte) bool {
	if len(a) != len(b) || len(a) == 0 {
		return false
	}
	n := len(a)
	if !bytes.Equal(a[:n-1], b[:n-1]) {
		return false
	}
	return int(b[n-1]) == int(a[n-1])+1
}

type renderer struct {
	p  Policy
	r  *rand.Rand
	sb strings.Builder
}

func (w *renderer) hex(b []byte) string {
	f := "%02x"
	if w.p.UpperHex {
		f = "%02X"
	}
	var sb strings.Builder
	sb.WriteByte('<')
	for _, x := range b {
		fmt.Fprintf(&sb, f, x)
	}
	sb.WriteByte('>')
	return sb.String()
}

func (w *renderer) target(s string) string {
	f := "%04x"
	if w.p.UpperHex {
		f = "%04X"
	}
	var sb strings.Builder
	sb.WriteByte('<')
	for i, u := range Units(s) {
		if i > 0 && w.p.HexBlank {
			sb.WriteByte(' ')
		}
		fmt.Fprintf(&sb, f, u)
	}
	sb.WriteByte('>')
	return sb.String()
}

// eol ends one logical line.
func (w *renderer) eol() {
	switch w.p.Layout {
	case "crlf":
		w.sb.WriteString("\r\n")
	case "cr":
		w.sb.WriteString("\r")
	case "oneline":
		w.sb.WriteString(" ")
	default:
		w.sb.WriteString("\n")
	}
}

func (w *renderer) sep() string {
	if w.p.Tight {
		return ""
	}
	return " "
}

func (w *renderer) line(s string) { w.sb.WriteString(s); w.eol() }

// Render produces the CMap program.
func Render(m *Map, p Policy, r *rand.Rand) ([]byte, Stats) {
	st := Stats{Form: map[string]string{}}
	if p.MaxSection < 1 {
		p.MaxSection = 1
	}
	if p.MaxSection > 100 {
		p.MaxSection = 100
	}
	w := &renderer{p: p, r: r}
	es := append([]Entry{}, m.Entries...)
	sort.Slice(es, func(i, j int) bool {
		if len(es[i].Code) != len(es[j].Code) {
			return len(es[i].Code) < len(es[j].Code)
		}
		return bytes.Compare(es[i].Code, es[j].Code) < 0
	})

	// 1. cut the sorted entries into items
	var items []item
	for i := 0; i < len(es); {
		run := 1
		for i+run < len(es) && consecutive(es[i+run-1].Code, es[i+run].Code) {
			run++
		}
		if r.Float64() >= p.PRange {
			items = append(items, item{"char", es[i : i+1]})
			i++
			continue
		}
		n := 1 + r.Intn(run)
		if run > 1 && r.Intn(4) > 0 {
			n = run // mostly the whole run
		}
		if r.Float64() < p.PArray {
			items = append(items, item{"array", es[i : i+n]})
			i += n
			continue
		}
		// offset form: longest prefix of the run that the increment rule reproduces
		k := 1
		for k < n {
			t, ok := OffsetText(es[i].Text, k)
			if !ok || t != es[i+k].Text {
				break
			}
			k++
		}
		items = append(items, item{"offset", es[i : i+k]})
		i += k
	}
	if p.Grouped {
		sort.SliceStable(items, func(i, j int) bool { return items[i].kind == "char" && items[j].kind != "char" })
	}

	for _, it := range items {
		for _, e := range it.entries {
			st.Form[string(e.Code)] = it.kind
		}
	}

	// 2. header
	comments := p.Comments && p.Layout != "oneline"
	if comments {
		w.line("%!PS-Adobe-3.0 Resource-CMap")
		w.line("%%DocumentNeededResources: ProcSet (CIDInit)")
		w.line("%%IncludeResource: ProcSet (CIDInit)")
		w.line("%%BeginResource: CMap (Adobe-Identity-UCS)")
		w.line("%%Title: (Adobe-Identity-UCS Adobe UCS 0)")
		w.line("%%EndComments")
	}
	if p.FullHeader {
		w.line("/CIDInit /ProcSet findresource begin")
		w.line("12 dict begin")
		w.line("begincmap")
		w.line("/CIDSystemInfo << /Registry (Adobe) /Ordering (UCS) /Supplement 0 >> def")
		w.line("/CMapName /Adobe-Identity-UCS def")
		w.line("/CMapType 2 def")
	} else {
		w.line("begincmap")
	}
	// codespace ranges (at most 100 per section by the same rule)
	w.line(fmt.Sprintf("%d begincodespacerange", len(m.Spaces)))
	for _, s := range m.Spaces {
		w.line(w.hex(s.Lo) + w.sep() + w.hex(s.Hi))
	}
	w.line("endcodespacerange")

	// 3. sections
	secStart := w.sb.Len()
	var segs []string
	damagedAt, damagedLine := -1, ""
	if p.Damaged && len(items) > 0 {
		used := map[string]bool{}
		for _, e := range es {
			used[string(e.Code)] = true
		}
		for try := 0; try < 50 && damagedAt < 0; try++ {
			sp := m.Spaces[r.Intn(len(m.Spaces))]
			code := make([]byte, len(sp.Lo))
			for k := range code {
				code[k] = sp.Lo[k] + byte(r.Intn(int(sp.Hi[k])-int(sp.Lo[k])+1))
			}
			if used[string(code)] {
				continue
			}
			damagedAt = r.Intn(len(items))
			bad := []string{"<00ZZ>", "<004200>", "<0g41>", "<D83D>"}[r.Intn(4)]
			if items[damagedAt].kind == "char" {
				damagedLine = w.hex(code) + w.sep() + bad
			} else if r.Intn(2) == 0 {
				damagedLine = w.hex(code) + w.sep() + w.hex(code) + w.sep() + bad
			} else {
				damagedLine = w.hex(code) + w.sep() + w.hex(code) + w.sep() + "[" + bad + "]"
			}
		}
	}
	charNo, rangeNo := 0, 0
	for i := 0; i < len(items); {
		class := items[i].kind == "char"
		max := 1 + r.Intn(p.MaxSection)
		j := i
		for j < len(items) && j-i < max && (items[j].kind == "char") == class {
			j++
		}
		if j-i > st.MaxSectionEntries {
			st.MaxSectionEntries = j - i
		}
		if comments && r.Intn(2) == 0 {
			w.line("% the mappings of the next section follow")
		}
		extra := 0
		if damagedAt >= i && damagedAt < j {
			extra = 1
		}
		if class {
			st.CharSections++
			charNo++
			w.line(fmt.Sprintf("%d beginbfchar", j-i+extra))
			for k, it := range items[i:j] {
				if extra == 1 && i+k == damagedAt {
					w.line(damagedLine)
					st.DamagedSection = fmt.Sprintf("bfchar #%d", charNo)
				}
				st.BfChar++
				w.line(w.hex(it.entries[0].Code) + w.sep() + w.target(it.entries[0].Text))
			}
			w.line("endbfchar")
		} else {
			st.RangeSections++
			forms := map[string]bool{}
			rangeNo++
			w.line(fmt.Sprintf("%d beginbfrange", j-i+extra))
			for k, it := range items[i:j] {
				if extra == 1 && i+k == damagedAt {
					w.line(damagedLine)
					st.DamagedSection = fmt.Sprintf("bfrange #%d", rangeNo)
				}
				forms[it.kind] = true
				lo, hi := it.entries[0].Code, it.entries[len(it.entries)-1].Code
				st.CodesInRanges += len(it.entries)
				if it.kind == "offset" {
					st.RangeOffset++
					if len(Units(it.entries[0].Text)) > 1 {
						st.MultiUnitOffsetRanges++
					}
					w.line(w.hex(lo) + w.sep() + w.hex(hi) + w.sep() + w.target(it.entries[0].Text))
					continue
				}
				st.RangeArray++
				if len(it.entries) > st.MaxArrayLen {
					st.MaxArrayLen = len(it.entries)
				}
				if p.Layout == "oneline" || p.Layout == "cr" {
					st.ArraysSharingLine++
				}
				var sb strings.Builder
				sb.WriteString(w.hex(lo) + w.sep() + w.hex(hi) + w.sep() + "[")
				for k, e := range it.entries {
					if k > 0 {
						if p.ArrayBreak > 0 && k%p.ArrayBreak == 0 && p.Layout != "oneline" {
							w.line(sb.String())
							sb.Reset()
						} else {
							sb.WriteString(w.sep())
						}
					}
					sb.WriteString(w.target(e.Text))
				}
				sb.WriteString("]")
				w.line(sb.String())
			}
			w.line("endbfrange")
			if forms["offset"] && forms["array"] {
				st.MixedRangeSections++
			}
		}
		i = j
		segs = append(segs, w.sb.String()[secStart:])
		secStart = w.sb.Len()
	}
	if p.SectionOrder != "" && len(segs) > 1 {
		all := w.sb.String()
		total := 0
		for _, sg := range segs {
			total += len(sg)
		}
		prefix := all[:len(all)-total]
		if p.SectionOrder == "reverse" {
			for a, b := 0, len(segs)-1; a < b; a, b = a+1, b-1 {
				segs[a], segs[b] = segs[b], segs[a]
			}
		} else {
			r.Shuffle(len(segs), func(a, b int) { segs[a], segs[b] = segs[b], segs[a] })
		}
		w.sb.Reset()
		w.sb.WriteString(prefix)
		for _, sg := range segs {
			w.sb.WriteString(sg)
		}
	}

	// 4. trailer
	w.line("endcmap")
	if p.FullHeader {
		w.line("CMapName currentdict /CMap defineresource pop")
		w.line("end")
		w.line("end")
	}
	return []byte(w.sb.String()), st
}

// Segment splits data into codes by codespace matching (shortest matching
// range first; the generator guarantees there are no prefix conflicts). ok is
// false if some position matches no range.
func (m *Map) Segment(data []byte) (codes [][]byte, ok bool) {
	for i := 0; i < len(data); {
		found := 0
		for n := 1; n <= 4 && i+n <= len(data) && found == 0; n++ {
			for _, s := range m.Spaces {
				if s.Contains(data[i : i+n]) {
					found = n
					break
				}
			}
		}
		if found == 0 {
			return codes, false
		}
		codes = append(codes, data[i:i+found])
		i += found
	}
	return codes, true
}

// Decode is the reference reading of a code string: segmentation by codespace,
// then the text of each code; ok is false if a code is outside the codespace
// or unmapped (the specification leaves the result open then).
func (m *Map) Decode(data []byte) (string, bool) {
	codes, ok := m.Segment(data)
	if !ok {
		return "", false
	}
	idx := make(map[string]string, len(m.Entries))
	for _, e := range m.Entries {
		idx[string(e.Code)] = e.Text
	}
	var sb strings.Builder
	for _, c := range codes {
		t, ok := idx[string(c)]
		if !ok {
			return "", false
		}
		sb.WriteString(t)
	}
	return sb.String(), true
}

// PrefixFree reports whether no code of a shorter range is a prefix of a code
// of a longer range (the condition under which codespace matching is
// unambiguous).
func (m *Map) PrefixFree() bool {
	for _, a := range m.Spaces {
		for _, b := range m.Spaces {
			if len(a.Lo) >= len(b.Lo) {
				continue
			}
			over := true
			for i := range a.Lo {
				if a.Hi[i] < b.Lo[i] || b.Hi[i] < a.Lo[i] {
					over = false
					break
				}
			}
			if over {
				return false
			}
		}
	}
	return true
}
