// Package c07: character codes decode to the Unicode the font specifies.
//
// Oracles
//   - named encodings: vendored independent tables (ref/enc) with a don't-care mask;
//   - ToUnicode CMaps: the generating code->text map (ref/cmapw renders it into a
//     program; font.ParseToUnicodeCMap(...).LookupString must give the map's text back);
//   - UTF-16: stdlib unicode/utf16;
//   - precedence: a font built from a dictionary with both /Encoding and /ToUnicode
//     must follow the ToUnicode map;
//   - invariant: every string returned by a Font decode path is valid UTF-8 and NFC.
//
// Texts are compared up to canonical equivalence (NFC of both sides): the
// statement demands "the specified text" and NFC output at the same time, so the
// weaker reading (equal after NFC) is the one asserted for every comparison.
package c07

import (
	"bytes"
	"compress/zlib"
	"encoding/hex"
	"fmt"
	"math/rand"
	"strings"
	"unicode"
	"unicode/utf16"
	"unicode/utf8"

	"golang.org/x/text/unicode/norm"

	"github.com/tsawler/tabula/core"
	"github.com/tsawler/tabula/font"
	"github.com/tsawler/tabula/text"

	"verifharness/fw"
	"verifharness/ref/cmapw"
	"verifharness/ref/enc"
)

func nfc(s string) string { return norm.NFC.String(s) }

func short(s string) string {
	if len(s) > 160 {
		return fmt.Sprintf("%+q…(%d bytes)", s[:160], len(s))
	}
	return fmt.Sprintf("%+q", s)
}

func hexShort(b []byte) string {
	if len(b) > 120 {
		return hex.EncodeToString(b[:120]) + fmt.Sprintf("…(%d bytes)", len(b))
	}
	return hex.EncodeToString(b)
}

// ---------------------------------------------------------------------------
// (A) named encodings, exhaustive

func nonASCII(r rune) bool { return r > 0x7E }

func runTables(c *fw.Ctx) {
	for _, name := range enc.Names {
		t, err := enc.Load(name)
		if err != nil {
			c.Inconclusive("reference table " + name + ": " + err.Error())
			continue
		}
		cared := 0
		for code := 0; code < 256; code++ {
			id := fmt.Sprintf("enc:%s:%02x", name, code)
			if t.Care[code] {
				cared++
			}
			if !c.Want(id) {
				continue
			}
			c.Case(id, t.Care[code] && nonASCII(t.Ref[code]))
			if !t.Care[code] {
				c.Count("enc_codes_masked", 1)
				c.Seen("enc_mask_reason", t.Why[code])
				continue
			}
			in := []byte{byte(code)}
			detail := map[string]any{"encoding": name, "code": fmt.Sprintf("%#02x", code), "reference": fmt.Sprintf("U+%04X", t.Ref[code]), "source": t.Source}
			c.Guard("enc", id, detail, func() {
				paths := []struct {
					name string
					f    func() string
				}{
					{"GetEncoding.DecodeString", func() string { return font.GetEncoding(name).DecodeString(in) }},
					{"GetEncoding.Decode", func() string {
						r := font.GetEncoding(name).Decode(byte(code))
						if r == 0 {
							return ""
						}
						return string(r)
					}},
					{"DecodeWithEncoding", func() string { return font.DecodeWithEncoding(in, name) }},
					{"Font.DecodeString", func() string {
						f := font.NewFont("F1", "Helvetica", "Type1")
						f.Encoding = name
						return f.DecodeString(in)
					}},
				}
				for _, p := range paths {
					got := p.f()
					c.Count("enc_lookups_checked", 1)
					if !t.Accepts(code, got) {
						detail["path"] = p.name
						detail["got"] = fmt.Sprintf("%+q", got)
						c.Fail("", "enc/"+name, id, fmt.Sprintf("%s code %#02x via %s decodes to %+q, reference (%s) U+%04X", name, code, p.name, got, t.Source, t.Ref[code]), detail)
						return
					}
				}
			})
		}
		c.Seen("encoding", fmt.Sprintf("%s (%d codes asserted, %s)", name, cared, t.Source))

		// all asserted codes in one string (a table that is right per byte but a
		// DecodeString that mishandles sequences would show here)
		id := "enc:" + name + ":all"
		if c.Want(id) {
			var in []byte
			var want strings.Builder
			for code := 0x20; code < 256; code++ {
				if t.Care[code] && len(t.Alt[code]) == 0 {
					in = append(in, byte(code))
					want.WriteRune(t.Ref[code])
				}
			}
			c.Case(id, true)
			c.Guard("enc", id, nil, func() {
				got := font.GetEncoding(name).DecodeString(in)
				if enc.Canon(got) != enc.Canon(want.String()) {
					c.Fail("", "enc-seq/"+name, id, fmt.Sprintf("%s: decoding all %d asserted codes as one string differs from the reference", name, len(in)),
						map[string]any{"got": short(got), "want": short(want.String())})
				}
			})
		}
	}
}

// ---------------------------------------------------------------------------
// (B) ToUnicode CMap programs

func mkStream(data []byte, r *rand.Rand) (*core.Stream, string) {
	switch r.Intn(3) {
	case 0:
		var zb bytes.Buffer
		zw := zlib.NewWriter(&zb)
		zw.Write(data)
		zw.Close()
		return &core.Stream{Dict: core.Dict{"Filter": core.Name("FlateDecode"), "Length": core.Int(zb.Len())}, Data: zb.Bytes()}, "flate"
	default:
		return &core.Stream{Dict: core.Dict{"Length": core.Int(len(data))}, Data: data}, "raw"
	}
}

// lookupStrings: all entries in code order, plus random sequences.
func lookupStrings(g *genMap, r *rand.Rand) [][]byte {
	var out [][]byte
	var all []byte
	for _, e := range g.m.Entries {
		all = append(all, e.Code...)
	}
	out = append(out, all)
	for k := 0; k < 3; k++ {
		n := 1 + r.Intn(24)
		var s []byte
		for i := 0; i < n; i++ {
			s = append(s, g.m.Entries[r.Intn(len(g.m.Entries))].Code...)
		}
		out = append(out, s)
	}
	return out
}

type cmapCase struct {
	g       *genMap
	pol     cmapw.Policy
	prog    []byte
	st      cmapw.Stats
	stream  *core.Stream
	strKind string
}

// addBOMCodes makes sure the map has the codes whose bytes spell a UTF-16
// byte-order mark (FE FF / FF FE), so that a code string can begin with them.
func addBOMCodes(g *genMap, r *rand.Rand) {
	var codes [][]byte
	switch len(g.m.Spaces[0].Lo) {
	case 1:
		codes = [][]byte{{0xFE}, {0xFF}}
	case 2:
		codes = [][]byte{{0xFE, 0xFF}, {0xFF, 0xFE}}
	default:
		return
	}
	for _, code := range codes {
		have := false
		for _, e := range g.m.Entries {
			if bytes.Equal(e.Code, code) {
				have = true
			}
		}
		if !have {
			t, k := randText(r)
			g.m.Entries = append(g.m.Entries, cmapw.Entry{Code: code, Text: t})
			g.kinds[k]++
		}
	}
}

// bomPrefix returns a code string (and its text) that starts with the bytes FE FF or FF FE.
func bomPrefix(g *genMap, r *rand.Rand) ([]byte, string) {
	idx := map[string]string{}
	for _, e := range g.m.Entries {
		idx[string(e.Code)] = e.Text
	}
	first, second := []byte{0xFE}, []byte{0xFF}
	if r.Intn(2) == 0 {
		first, second = second, first
	}
	if len(g.m.Spaces[0].Lo) == 2 {
		c := append(append([]byte{}, first...), second...)
		return c, idx[string(c)]
	}
	return append(append([]byte{}, first...), second...), idx[string(first)] + idx[string(second)]
}

func buildCMapCase(c *fw.Ctx, ns string, i int, forceSet int, bomCodes ...bool) *cmapCase {
	cc := &cmapCase{}
	cc.g = genCMap(c.Rand(ns, i, "map"), forceSet)
	if len(bomCodes) > 0 && bomCodes[0] {
		addBOMCodes(cc.g, c.Rand(ns, i, "bomcodes"))
	}
	cc.pol = randPolicy(c.Rand(ns, i, "policy"))
	cc.prog, cc.st = cmapw.Render(cc.g.m, cc.pol, c.Rand(ns, i, "render"))
	cc.stream, cc.strKind = mkStream(cc.prog, c.Rand(ns, i, "stream"))
	return cc
}

func (cc *cmapCase) seen(c *fw.Ctx) {
	c.Seen("cmap_codespace", cc.g.set)
	c.Seen("cmap_layout", cc.pol.Layout)
	c.Seen("cmap_stream", cc.strKind)
	c.Seen("cmap_hex_case", map[bool]string{true: "upper", false: "lower"}[cc.pol.UpperHex])
	if cc.pol.Tight {
		c.Seen("cmap_spacing", "tight")
	} else {
		c.Seen("cmap_spacing", "blank")
	}
	if cc.pol.HexBlank {
		c.Seen("cmap_spacing", "blank-inside-hex")
	}
	for k, n := range cc.g.kinds {
		if n > 0 {
			c.Seen("cmap_target_kind", k)
		}
	}
	c.Count("cmap_bfchar_entries", int64(cc.st.BfChar))
	c.Count("cmap_bfrange_offset_entries", int64(cc.st.RangeOffset))
	c.Count("cmap_bfrange_array_entries", int64(cc.st.RangeArray))
	c.Count("cmap_bfrange_offset_multiunit", int64(cc.st.MultiUnitOffsetRanges))
	c.Count("cmap_sections", int64(cc.st.CharSections+cc.st.RangeSections))
	c.Count("cmap_mixed_form_sections", int64(cc.st.MixedRangeSections))
	if cc.st.DamagedSection != "" {
		c.Count("cmap_with_one_damaged_extra_entry", 1)
		if cc.st.CharSections+cc.st.RangeSections > 1 {
			c.Count("cmap_damaged_entry_beside_other_sections", 1)
		}
	}
	c.Count("cmap_arrays_sharing_a_line", int64(cc.st.ArraysSharingLine))
	bucket := func(n int) string {
		switch {
		case n >= 100:
			return "100"
		case n >= 50:
			return "50-99"
		case n >= 10:
			return "10-49"
		case n >= 2:
			return "2-9"
		}
		return fmt.Sprint(n)
	}
	c.Seen("cmap_largest_section_entries", bucket(cc.st.MaxSectionEntries))
	if cc.st.MaxArrayLen > 0 {
		c.Seen("cmap_longest_array", bucket(cc.st.MaxArrayLen))
	}
	c.Seen("cmap_map_entries", bucket(len(cc.g.m.Entries)))
	forms := ""
	if cc.st.BfChar > 0 {
		forms += "bfchar+"
	}
	if cc.st.RangeOffset > 0 {
		forms += "offset+"
	}
	if cc.st.RangeArray > 0 {
		forms += "array+"
	}
	c.Seen("cmap_forms", strings.TrimSuffix(forms, "+"))
	c.Seen("cmap_forms_x_layout", strings.TrimSuffix(forms, "+")+"/"+cc.pol.Layout)
	c.Seen("cmap_codespace_x_layout", cc.g.set+"/"+cc.pol.Layout)
}

// firstBadEntry finds the first single code whose lookup differs.
func firstBadEntry(cm *font.CMap, g *genMap) (cmapw.Entry, string, bool) {
	for _, e := range g.m.Entries {
		got := cm.LookupString(e.Code)
		if nfc(got) != nfc(e.Text) {
			return e, got, true
		}
	}
	return cmapw.Entry{}, "", false
}

func runCMapCase(c *fw.Ctx, id string, cc *cmapCase, r *rand.Rand) {
	desc := fmt.Sprintf("%s|%x", cc.pol.String(), cc.prog)
	c.Case(desc, cc.st.RangeOffset+cc.st.RangeArray > 0)
	cc.seen(c)
	c.Sample(map[string]any{"id": id, "map": cc.g.describe(), "policy": cc.pol.String(), "program_bytes": len(cc.prog),
		"program_head": fw.OneLine(string(cc.prog[:min(len(cc.prog), 300)]), 300)})
	detail := map[string]any{"map": cc.g.describe(), "policy": cc.pol.String(), "stream": cc.strKind, "program": string(cc.prog)}
	c.Guard("cmap", id, detail, func() {
		cm, err := font.ParseToUnicodeCMap(cc.stream)
		if err != nil || cm == nil {
			c.Fail("", "cmap-parse-error", id, fmt.Sprintf("ParseToUnicodeCMap failed on a conforming program: %v", err), detail)
			return
		}
		for k, s := range lookupStrings(cc.g, r) {
			want, ok := cc.g.m.Decode(s)
			if !ok {
				panic("harness: generated lookup string is not decodable by its own map")
			}
			got := cm.LookupString(s)
			c.Count("cmap_lookup_strings_checked", 1)
			c.Count("cmap_codes_checked", int64(len(s)))
			if !utf8.ValidString(got) {
				detail["codes"] = hexShort(s)
				c.Fail("", "cmap-invalid-utf8", id, "LookupString returned invalid UTF-8", detail)
				return
			}
			if nfc(got) == nfc(want) {
				continue
			}
			class := "cmap-mismatch/" + cc.g.set
			what := fmt.Sprintf("LookupString(%s) = %s, generating map says %s", hexShort(s), short(got), short(want))
			if e, g1, bad := firstBadEntry(cm, cc.g); bad {
				form := cc.st.Form[string(e.Code)]
				tk := "bmp"
				if u := cmapw.Units(e.Text); len(u) > 1 {
					tk = "multi-unit"
				}
				mixed := ""
				if cc.g.mixed {
					mixed = "mixed-width/"
				}
				class = fmt.Sprintf("cmap-mismatch/%s%s/%s/%s", mixed, form, tk, layoutClass(cc.pol.Layout))
				what = fmt.Sprintf("code <%x> (written as %s entry, layout %s, codespace %s) looks up as %s, generating map says %s",
					e.Code, form, cc.pol.Layout, cc.g.set, short(g1), short(e.Text))
				detail["bad_code"] = hex.EncodeToString(e.Code)
				detail["bad_form"] = form
			}
			detail["string_index"] = k
			detail["codes"] = hexShort(s)
			detail["got"] = short(got)
			detail["want"] = short(want)
			c.Fail("", class, id, what, detail)
			return
		}
	})
}

func layoutClass(l string) string {
	if l == "oneline" || l == "cr" {
		return "no-LF"
	}
	return "LF"
}

func runCMaps(c *fw.Ctx) {
	// fixed witnesses (always run, readable replays)
	for wi, w := range cmapWitnesses {
		id := fmt.Sprintf("cmapw:%d", wi)
		if !c.Want(id) {
			continue
		}
		runWitness(c, id, w)
	}
	n := c.N(8000, 200000)
	c.Parallel(n, func(i int) {
		id := fmt.Sprintf("cmap:%d", i)
		if !c.Want(id) {
			return
		}
		cc := buildCMapCase(c, "cmap", i, -1)
		runCMapCase(c, id, cc, c.Rand("cmap", i, "lookup"))
	})
}

type witness struct {
	name   string
	prog   string
	codes  string // hex
	want   string
	ranges int
}

// Hand-written programs, one per feature of the statement, taken from the
// forms shown in ISO 32000-1 §9.10.3 and Adobe TN #5411.
var cmapWitnesses = []witness{
	{"bfrange offset form, supplementary-plane target (surrogate pair in the hex)",
		"begincmap\n1 begincodespacerange\n<00> <FF>\nendcodespacerange\n1 beginbfrange\n<01> <03> <D83DDE00>\nendbfrange\nendcmap\n",
		"010203", "\U0001F600\U0001F601\U0001F602", 1},
	{"bfrange offset form, multi-character target (ISO 32000-1 §9.10.3 example: last byte incremented)",
		"begincmap\n1 begincodespacerange\n<0000> <FFFF>\nendcodespacerange\n1 beginbfrange\n<0005> <0007> <006600660069>\nendbfrange\nendcmap\n",
		"000500060007", "ffiffjffk", 1},
	{"two array-form bfrange entries on one line",
		"begincmap 1 begincodespacerange <00> <FF> endcodespacerange 2 beginbfrange <01> <02> [<0041> <0042>] <05> <06> [<0058> <0059>] endbfrange endcmap",
		"01020506", "ABXY", 2},
	{"offset-form entry followed by an array-form entry on one line",
		"begincmap 1 begincodespacerange <00> <FF> endcodespacerange 2 beginbfrange <01> <02> <0041> <05> <06> [<0058> <0059>] endbfrange endcmap",
		"01020506", "ABXY", 2},
	{"mixed-width codespace (1 and 2 bytes)",
		"begincmap\n2 begincodespacerange\n<00> <7F>\n<8000> <FFFF>\nendcodespacerange\n2 beginbfchar\n<41> <0061>\n<8141> <4E00>\nendbfchar\nendcmap\n",
		"41814141", "a一a", 0},
	{"3-byte codes, bfchar with ligature target, CRLF",
		"begincmap\r\n1 begincodespacerange\r\n<000000> <FFFFFF>\r\nendcodespacerange\r\n1 beginbfchar\r\n<010203> <00660066>\r\nendbfchar\r\nendcmap\r\n",
		"010203", "ff", 0},
}

func runWitness(c *fw.Ctx, id string, w witness) {
	c.Case("witness|"+w.prog, w.ranges > 0)
	c.Seen("cmap_witness", w.name)
	codes, _ := hex.DecodeString(w.codes)
	detail := map[string]any{"witness": w.name, "program": w.prog, "codes": w.codes, "want": short(w.want)}
	c.Guard("cmap-witness", id, detail, func() {
		cm, err := font.ParseToUnicodeCMap(&core.Stream{Dict: core.Dict{}, Data: []byte(w.prog)})
		if err != nil {
			c.Fail("", "cmap-parse-error", id, "ParseToUnicodeCMap: "+err.Error(), detail)
			return
		}
		got := cm.LookupString(codes)
		c.Count("cmap_lookup_strings_checked", 1)
		if nfc(got) != nfc(w.want) {
			detail["got"] = short(got)
			c.Fail("", "cmap-witness/"+w.name, id, fmt.Sprintf("%s: LookupString(<%s>) = %s, want %s", w.name, w.codes, short(got), short(w.want)), detail)
		}
	})
}

// ---------------------------------------------------------------------------
// (C) UTF-16 with byte-order mark

func randScalar(r *rand.Rand) rune {
	for {
		var x rune
		switch r.Intn(8) {
		case 0:
			x = rune(r.Intn(0x80))
		case 1:
			x = rune(r.Intn(0x800))
		case 2, 3:
			x = rune(r.Intn(0x10000))
		case 4:
			x = 0x10000 + rune(r.Intn(0x100000))
		case 5:
			x = pickRune(r, suppBlocks)
		case 6:
			x = pickRune(r, bmpBlocks)
		default:
			x = []rune{0, 0x7F, 0x80, 0xD7FF, 0xE000, 0xFFFD, 0xFFFE, 0xFFFF, 0x10000, 0x10FFFF, 0xFEFF, 0x0301, 0x00E9}[r.Intn(13)]
		}
		if x >= 0xD800 && x <= 0xDFFF {
			continue
		}
		return x
	}
}

func unitsToBytes(u []uint16, le bool) []byte {
	b := make([]byte, 0, 2*len(u))
	for _, x := range u {
		if le {
			b = append(b, byte(x), byte(x>>8))
		} else {
			b = append(b, byte(x>>8), byte(x))
		}
	}
	return b
}

func runUTF16(c *fw.Ctx) {
	n := c.N(6000, 200000)
	fonts := fontsWithoutToUnicode()
	c.Parallel(n, func(i int) {
		id := fmt.Sprintf("utf16:%d", i)
		if !c.Want(id) {
			return
		}
		r := c.Rand("utf16", i)
		ln := 1 + r.Intn(12)
		if r.Intn(5) == 0 {
			ln = r.Intn(200)
		}
		rs := make([]rune, ln)
		for k := range rs {
			rs[k] = randScalar(r)
		}
		units := utf16.Encode(rs)
		invalid := r.Intn(5) == 0
		if invalid { // unpaired surrogates / odd length: only the UTF-8 + NFC invariant is asserted
			for k := 1 + r.Intn(3); k > 0; k-- {
				pos := r.Intn(len(units) + 1)
				s := uint16(0xD800 + r.Intn(0x800))
				units = append(units[:pos], append([]uint16{s}, units[pos:]...)...)
			}
		}
		want := string(utf16.Decode(units)) // for valid input == string(rs)
		le := r.Intn(2) == 0
		data := unitsToBytes(units, le)
		if invalid && r.Intn(2) == 0 && len(data) > 0 {
			data = data[:len(data)-1]
		}
		nontriv := false
		for _, x := range rs {
			if x > 0x7E {
				nontriv = true
			}
		}
		endian := map[bool]string{true: "LE", false: "BE"}[le]
		c.Case(fmt.Sprintf("utf16|%s|%v|%x", endian, invalid, data), nontriv)
		c.Seen("utf16_endianness", endian)
		c.Seen("utf16_validity", map[bool]string{true: "unpaired-surrogate-or-odd", false: "valid"}[invalid])
		for _, x := range rs {
			if x >= 0x10000 {
				c.Seen("utf16_planes", "supplementary")
			} else {
				c.Seen("utf16_planes", "bmp")
			}
		}
		detail := map[string]any{"endianness": endian, "data": hexShort(data), "want": short(want), "valid_input": !invalid}
		c.Guard("utf16", id, detail, func() {
			var got string
			if le {
				got = font.DecodeUTF16LE(data)
			} else {
				got = font.DecodeUTF16BE(data)
			}
			c.Count("utf16_strings_checked", 1)
			if !utf8.ValidString(got) {
				detail["got"] = short(got)
				c.Fail("", "utf16-invalid-utf8/"+endian, id, "DecodeUTF16"+endian+" returned invalid UTF-8", detail)
				return
			}
			if !invalid && got != want {
				detail["got"] = short(got)
				c.Fail("", "utf16-mismatch/"+endian, id, fmt.Sprintf("DecodeUTF16%s(%s) = %s, unicode/utf16 says %s", endian, hexShort(data), short(got), short(want)), detail)
				return
			}
			// with BOM through Font.DecodeString (no ToUnicode): BOM has priority over the encoding
			bom := []byte{0xFE, 0xFF}
			if le {
				bom = []byte{0xFF, 0xFE}
			}
			fp := fonts[r.Intn(len(fonts))]
			f, err := fp.build()
			if err != nil {
				c.Fail("", "font-build/"+fp.name, id, "font construction failed: "+err.Error(), detail)
				return
			}
			got2 := f.DecodeString(append(append([]byte{}, bom...), data...))
			c.Seen("utf16_font_path", fp.name)
			c.Count("utf16_font_strings_checked", 1)
			if !utf8.ValidString(got2) || !norm.NFC.IsNormalString(got2) {
				detail["got"] = short(got2)
				detail["font_path"] = fp.name
				c.Fail("", "utf16-font-not-utf8-nfc", id, "Font.DecodeString of a BOM string is not valid UTF-8 in NFC", detail)
				return
			}
			if !invalid && got2 != nfc(want) {
				detail["got"] = short(got2)
				detail["font_path"] = fp.name
				c.Fail("", "utf16-font-mismatch/"+endian, id, fmt.Sprintf("Font.DecodeString(BOM %s + data) via %s = %s, want %s", endian, fp.name, short(got2), short(nfc(want))), detail)
			}
		})
	})
}

// ---------------------------------------------------------------------------
// Font construction paths

type store map[int]core.Object

func (s store) resolver() func(core.IndirectRef) (core.Object, error) {
	return func(ref core.IndirectRef) (core.Object, error) {
		if o, ok := s[ref.Number]; ok {
			return o, nil
		}
		return nil, fmt.Errorf("object %d not found", ref.Number)
	}
}

type fontSpec struct {
	kind       string // Type1 | TrueType | Type0
	encName    string // "" = no /Encoding (Type1 standard Latin font: StandardEncoding)
	encAsDict  bool   // /Encoding << /Type /Encoding /BaseEncoding /X >>
	encRef     bool   // /Encoding n 0 R
	encNoBase  bool   // /Encoding << /Type /Encoding >> without /BaseEncoding: the base is the font's built-in encoding
	toUnicode  *core.Stream
	tuIndirect bool
}

func (fs fontSpec) String() string {
	tu := "none"
	if fs.toUnicode != nil {
		tu = map[bool]string{true: "indirect", false: "direct"}[fs.tuIndirect]
	}
	e := fs.encName
	if e == "" {
		e = "(absent)"
	}
	if fs.encAsDict {
		e = "dict:" + e
	}
	if fs.encNoBase {
		e = "dict-without-BaseEncoding"
	}
	if fs.encRef {
		e += ":ref"
	}
	return fmt.Sprintf("%s enc=%s tounicode=%s", fs.kind, e, tu)
}

// dict builds the font dictionary and the object store behind its references.
func (fs fontSpec) dict() (core.Dict, store) {
	st := store{}
	d := core.Dict{"Type": core.Name("Font"), "Subtype": core.Name(fs.kind)}
	switch fs.kind {
	case "Type1":
		d["BaseFont"] = core.Name("Helvetica")
	case "TrueType":
		d["BaseFont"] = core.Name("ABCDEF+DejaVuSans")
		d["FirstChar"] = core.Int(0)
		d["LastChar"] = core.Int(255)
	case "Type0":
		d["BaseFont"] = core.Name("ABCDEF+NotoSansCJK")
		st[20] = core.Dict{"Type": core.Name("Font"), "Subtype": core.Name("CIDFontType2"), "BaseFont": core.Name("ABCDEF+NotoSansCJK"),
			"CIDSystemInfo": core.Dict{"Registry": core.String("Adobe"), "Ordering": core.String("Identity"), "Supplement": core.Int(0)},
			"DW":            core.Int(1000)}
		d["DescendantFonts"] = core.Array{core.IndirectRef{Number: 20}}
	}
	if fs.encNoBase {
		var e core.Object = core.Dict{"Type": core.Name("Encoding")}
		if fs.encRef {
			st[21] = e
			e = core.IndirectRef{Number: 21}
		}
		d["Encoding"] = e
	} else if fs.encName != "" {
		var e core.Object = core.Name(fs.encName)
		if fs.encAsDict {
			e = core.Dict{"Type": core.Name("Encoding"), "BaseEncoding": core.Name(fs.encName)}
		}
		if fs.encRef {
			st[21] = e
			e = core.IndirectRef{Number: 21}
		}
		d["Encoding"] = e
	}
	// /FontDescriptor carries metrics only; whether it is absent, a dictionary, a
	// reference to an object the file does not have (legal: the same as null),
	// or null, the codes decode the same way.
	if fs.kind != "Type0" {
		h := 0
		for _, ch := range fs.String() {
			h = h*31 + int(ch)
		}
		switch (h%4 + 4) % 4 {
		case 1:
			st[29] = core.Dict{"Type": core.Name("FontDescriptor"), "FontName": d["BaseFont"], "Flags": core.Int(32), "ItalicAngle": core.Int(0), "Ascent": core.Int(800), "Descent": core.Int(-200), "CapHeight": core.Int(700), "StemV": core.Int(80), "FontBBox": core.Array{core.Int(0), core.Int(-200), core.Int(1000), core.Int(800)}}
			d["FontDescriptor"] = core.IndirectRef{Number: 29}
		case 2:
			d["FontDescriptor"] = core.IndirectRef{Number: 29} // object 29 does not exist
		case 3:
			st[29] = core.Null{}
			d["FontDescriptor"] = core.IndirectRef{Number: 29}
		}
	}
	if fs.toUnicode != nil {
		if fs.tuIndirect {
			st[22] = fs.toUnicode
			d["ToUnicode"] = core.IndirectRef{Number: 22}
		} else {
			d["ToUnicode"] = fs.toUnicode
		}
	}
	return d, st
}

func (fs fontSpec) build() (*font.Font, error) {
	d, st := fs.dict()
	switch fs.kind {
	case "Type1":
		f, err := font.NewType1Font(d, st.resolver())
		if err != nil {
			return nil, err
		}
		return f.Font, nil
	case "TrueType":
		f, err := font.NewTrueTypeFont(d, st.resolver())
		if err != nil {
			return nil, err
		}
		return f.Font, nil
	default:
		f, err := font.NewType0Font(d, st.resolver())
		if err != nil {
			return nil, err
		}
		return f.Font, nil
	}
}

type namedBuild struct {
	name  string
	build func() (*font.Font, error)
}

func fontsWithoutToUnicode() []namedBuild {
	out := []namedBuild{
		{"NewFont", func() (*font.Font, error) { return font.NewFont("F1", "Times-Roman", "Type1"), nil }},
	}
	for _, fs := range []fontSpec{
		{kind: "Type1", encName: "WinAnsiEncoding"},
		{kind: "Type1", encName: ""},
		{kind: "Type1", encName: "MacRomanEncoding", encAsDict: true, encRef: true},
		{kind: "TrueType", encName: "WinAnsiEncoding"},
		{kind: "TrueType", encName: "MacRomanEncoding", encRef: true},
	} {
		fs := fs
		out = append(out, namedBuild{fs.String(), fs.build})
	}
	return out
}

// simple-font encodings that may legally appear as /Encoding or /BaseEncoding
// of a font dictionary and that tabula knows by name (MacExpertEncoding is
// unknown to font.GetEncoding and therefore outside the statement's
// "every named encoding").
var dictEncodings = []string{"WinAnsiEncoding", "MacRomanEncoding", "StandardEncoding"}

// ---------------------------------------------------------------------------
// (D) ToUnicode takes precedence over the encoding; without it the encoding decides

func runPrecedence(c *fw.Ctx) {
	tables := map[string]*enc.Table{}
	for _, n := range enc.Names {
		t, err := enc.Load(n)
		if err != nil {
			return // already reported by runTables
		}
		tables[n] = t
	}
	var specs []fontSpec
	for _, kind := range []string{"Type1", "TrueType"} {
		for _, e := range dictEncodings {
			if e == "StandardEncoding" && kind == "TrueType" {
				continue
			}
			for _, asDict := range []bool{false, true} {
				if e == "StandardEncoding" && !asDict {
					continue // /Encoding /StandardEncoding is not one of the names ISO 32000-1 Table 111 allows
				}
				for _, ref := range []bool{false, true} {
					specs = append(specs, fontSpec{kind: kind, encName: e, encAsDict: asDict, encRef: ref})
				}
			}
		}
	}
	specs = append(specs, fontSpec{kind: "Type1", encName: ""}) // Helvetica without /Encoding: built-in = StandardEncoding
	// an Encoding dictionary that omits /BaseEncoding: for a non-symbolic standard Type 1 font the base is
	// its built-in encoding, StandardEncoding (ISO 32000-1 Table 114)
	specs = append(specs, fontSpec{kind: "Type1", encName: "", encNoBase: true}, fontSpec{kind: "Type1", encName: "", encNoBase: true, encRef: true})
	specs = append(specs, fontSpec{kind: "Type0", encName: "Identity-H"}, fontSpec{kind: "Type0", encName: "Identity-V"})

	n := c.N(40, 1500)
	type job struct {
		id   string
		spec fontSpec
		k    int
	}
	var jobs []job
	for si, s := range specs {
		for k := 0; k < n; k++ {
			jobs = append(jobs, job{fmt.Sprintf("prec:%d:%d", si, k), s, k})
		}
	}
	c.Parallel(len(jobs), func(ji int) {
		j := jobs[ji]
		if !c.Want(j.id) {
			return
		}
		r := c.Rand("prec", j.spec.String(), j.k)
		fs := j.spec
		withTU := j.k%4 != 0 // a quarter of the cases: no ToUnicode => the encoding must decide
		var cc *cmapCase
		if withTU {
			set := 0 // w1
			if fs.kind == "Type0" {
				set = 1 // w2
			} else if r.Intn(3) == 0 {
				set = 4 // w1-two-ranges
			}
			cc = buildCMapCase(c, "prec/"+fs.String(), j.k, set, true)
			fs.toUnicode = cc.stream
			fs.tuIndirect = r.Intn(2) == 0
		} else if fs.kind == "Type0" {
			return // Identity-H without ToUnicode has no specified Unicode
		}
		unusable := ""
		if !withTU && j.k%8 == 4 {
			// a /ToUnicode entry that gives no map at all (its stream cannot be decoded,
			// the object is missing or null): the font still specifies its encoding.
			// Codes rendered as nothing or U+FFFD are tolerated, other characters are not.
			switch r.Intn(4) {
			case 0:
				junk := make([]byte, 40+r.Intn(60))
				r.Read(junk)
				junk[0], junk[1] = 0x78, 0x9c // a zlib header in front of noise
				fs.toUnicode = &core.Stream{Dict: core.Dict{"Filter": core.Name("FlateDecode"), "Length": core.Int(len(junk))}, Data: junk}
				unusable = "corrupt-flate"
			case 1:
				prog := []byte("/CIDInit /ProcSet findresource begin 12 dict begin begincmap 1 begincodespacerange <00> <FF> endcodespacerange endcmap end end")
				fs.toUnicode = &core.Stream{Dict: core.Dict{"Filter": core.Name("JBIG2Decode"), "Length": core.Int(len(prog))}, Data: prog}
				unusable = "unsupported-filter"
			case 2:
				var zb bytes.Buffer
				zw := zlib.NewWriter(&zb)
				zw.Write(bytes.Repeat([]byte("1 beginbfchar <41> <0042> endbfchar\n"), 40))
				zw.Close()
				cut := zb.Bytes()[:2+r.Intn(6)]
				fs.toUnicode = &core.Stream{Dict: core.Dict{"Filter": core.Name("FlateDecode"), "Length": core.Int(len(cut))}, Data: append([]byte{}, cut...)}
				unusable = "flate-cut-in-header"
			default:
				fs.toUnicode = &core.Stream{Dict: core.Dict{"Filter": core.Array{core.Name("ASCIIHexDecode"), core.Name("FlateDecode")}, "Length": core.Int(9)}, Data: []byte("zz not hex")}
				unusable = "bad-hex-then-flate"
			}
			fs.tuIndirect = r.Intn(2) == 0
			c.Seen("prec_feature", "unusable ToUnicode stream: "+unusable)
		}
		c.Seen("font_path", fs.String())
		detail := map[string]any{"font": fs.String()}
		if cc != nil {
			detail["program"] = string(cc.prog)
			detail["policy"] = cc.pol.String()
		}
		c.Guard("prec", j.id, detail, func() {
			f, err := fs.build()
			if err != nil && unusable != "" {
				c.Count("prec_unusable_tounicode_font_refused", 1)
				return
			}
			if err != nil {
				c.Case("prec|"+j.id, false)
				c.Fail("", "font-build/"+fs.kind, j.id, "font construction failed on a well-formed dictionary: "+err.Error(), detail)
				return
			}
			if withTU {
				// codes: every mapped code; the map deliberately disagrees with the encoding
				var data []byte
				var want strings.Builder
				differs := 0
				encName := fs.encName
				if encName == "" {
					encName = "StandardEncoding"
				}
				for _, e := range cc.g.m.Entries {
					data = append(data, e.Code...)
					want.WriteString(e.Text)
					if t := tables[encName]; t != nil && len(e.Code) == 1 && !(t.Care[e.Code[0]] && t.Accepts(int(e.Code[0]), e.Text)) {
						differs++
					}
				}
				if r.Intn(2) == 0 { // a code string that starts like a UTF-16 BOM is still a code string
					pc, pt := bomPrefix(cc.g, r)
					data = append(pc, data...)
					w := want.String()
					want.Reset()
					want.WriteString(pt + w)
					c.Seen("prec_feature", "code string beginning FE FF / FF FE with ToUnicode present")
				}
				c.Case("prec|"+fs.String()+"|"+string(cc.prog), differs > 0 || fs.kind == "Type0")
				got := f.DecodeString(data)
				c.Count("prec_tounicode_strings_checked", 1)
				c.Count("prec_codes_disagreeing_with_encoding", int64(differs))
				if got != nfc(want.String()) {
					detail["codes"] = hexShort(data)
					detail["got"] = short(got)
					detail["want"] = short(nfc(want.String()))
					what := fmt.Sprintf("font (%s) with ToUnicode: DecodeString = %s, ToUnicode map (NFC) says %s", fs.String(), short(got), short(nfc(want.String())))
					c.Fail("", "prec-tounicode/"+fs.kind, j.id, what, detail)
				}
				return
			}
			// no ToUnicode: asserted codes of the named encoding, random order, not starting with a BOM
			encName := fs.encName
			if encName == "" {
				encName = "StandardEncoding"
			}
			t := tables[encName]
			var data []byte
			var want strings.Builder
			for k := 0; k < 40; k++ {
				code := 0x20 + r.Intn(0xE0)
				if !t.Care[code] || len(t.Alt[code]) > 0 || (len(data) == 0 && code >= 0xFE) {
					continue
				}
				data = append(data, byte(code))
				want.WriteRune(t.Ref[code])
			}
			c.Case("prec-enc|"+fs.String()+"|"+string(data), true)
			got := f.DecodeString(data)
			c.Count("prec_encoding_strings_checked", 1)
			if unusable != "" {
				c.Count("prec_unusable_tounicode_fonts_checked", 1)
				if strings.Trim(got, "\uFFFD") == "" {
					c.Count("prec_unusable_tounicode_rendered_as_unknown", 1)
					return
				}
				detail["tounicode"] = unusable
			}
			if enc.Canon(got) != enc.Canon(want.String()) || !norm.NFC.IsNormalString(got) {
				detail["codes"] = hexShort(data)
				detail["got"] = short(got)
				detail["want"] = short(want.String())
				c.Fail("", "prec-encoding/"+fs.kind+"/"+encName, j.id, fmt.Sprintf("font (%s) without ToUnicode: DecodeString(%s) = %s, %s reference says %s", fs.String(), hexShort(data), short(got), encName, short(want.String())), detail)
			}
		})
	})
}

// ---------------------------------------------------------------------------
// (E) every returned string is valid UTF-8 and NFC

func randBytes(r *rand.Rand) []byte {
	n := r.Intn(40)
	if r.Intn(6) == 0 {
		n = r.Intn(400)
	}
	b := make([]byte, n)
	switch r.Intn(5) {
	case 0: // high bytes
		for i := range b {
			b[i] = byte(0x80 + r.Intn(0x80))
		}
	case 1: // UTF-8 of decomposed text, possibly cut
		s := ""
		for len(s) < n {
			s += string(rune('a'+r.Intn(26))) + string(combining[r.Intn(len(combining))])
		}
		b = []byte(s)[:n]
	case 2: // surrogate-heavy UTF-16
		for i := range b {
			if i%2 == 0 {
				b[i] = byte(0xD8 + r.Intn(8))
			} else {
				b[i] = byte(r.Intn(256))
			}
		}
	default:
		r.Read(b)
	}
	if r.Intn(4) == 0 && len(b) >= 2 {
		if r.Intn(2) == 0 {
			b[0], b[1] = 0xFE, 0xFF
		} else {
			b[0], b[1] = 0xFF, 0xFE
		}
	}
	return b
}

func runInvariant(c *fw.Ctx) {
	n := c.N(6000, 200000)
	c.Parallel(n, func(i int) {
		id := fmt.Sprintf("inv:%d", i)
		if !c.Want(id) {
			return
		}
		r := c.Rand("inv", i)
		data := randBytes(r)
		// choose a font path
		var f *font.Font
		var path string
		var prog []byte
		switch r.Intn(6) {
		case 0:
			name := append(append([]string{}, enc.Names...), "Identity-H", "NoSuchEncoding")[r.Intn(len(enc.Names)+2)]
			f = font.NewFont("F1", "Helvetica", "Type1")
			f.Encoding = name
			path = "NewFont enc=" + name
		case 1:
			f = &font.Font{} // documented priority 4: no encoding at all => raw bytes
			path = "Font{} (no encoding: raw-bytes fallback)"
		case 2:
			fs := fontSpec{kind: []string{"Type1", "TrueType"}[r.Intn(2)], encName: dictEncodings[r.Intn(2)], encAsDict: r.Intn(2) == 0, encRef: r.Intn(2) == 0}
			f, _ = fs.build()
			path = fs.String()
		default:
			kind := []string{"Type1", "TrueType", "Type0"}[r.Intn(3)]
			cc := buildCMapCase(c, "inv", i, -1)
			fs := fontSpec{kind: kind, encName: "WinAnsiEncoding", toUnicode: cc.stream, tuIndirect: r.Intn(2) == 0}
			if kind == "Type0" {
				fs.encName = "Identity-H"
			}
			f, _ = fs.build()
			path = fs.String() + " codespace=" + cc.g.set
			prog = cc.prog
			if r.Intn(2) == 0 { // mostly mapped codes with some garbage in between
				var d []byte
				for k := r.Intn(20); k >= 0; k-- {
					d = append(d, cc.g.m.Entries[r.Intn(len(cc.g.m.Entries))].Code...)
					if r.Intn(4) == 0 {
						d = append(d, byte(r.Intn(256)))
					}
				}
				data = d
			}
		}
		c.Case(fmt.Sprintf("inv|%s|%x|%x", path, prog, data), len(data) > 0)
		detail := map[string]any{"path": path, "data": hexShort(data)}
		if prog != nil {
			detail["program"] = string(prog)
		}
		if f == nil {
			c.Fail("", "font-build/inv", id, "font construction failed on a well-formed dictionary ("+path+")", detail)
			return
		}
		c.Seen("invariant_path", strings.SplitN(path, " codespace=", 2)[0])
		c.Guard("inv", id, detail, func() {
			got := f.DecodeString(data)
			c.Count("invariant_strings_checked", 1)
			c.Count("invariant_output_bytes", int64(len(got)))
			if !utf8.ValidString(got) {
				detail["got"] = short(got)
				c.Fail("", "inv-invalid-utf8/"+pathClass(path), id, fmt.Sprintf("Font.DecodeString via %s returned invalid UTF-8 for %s: %s", path, hexShort(data), short(got)), detail)
				return
			}
			if !norm.NFC.IsNormalString(got) {
				detail["got"] = short(got)
				c.Fail("", "inv-not-nfc/"+pathClass(path), id, fmt.Sprintf("Font.DecodeString via %s returned text that is not NFC: %s", path, short(got)), detail)
			}
		})
	})
}

func pathClass(p string) string {
	if i := strings.IndexByte(p, ' '); i > 0 {
		return p[:i]
	}
	return p
}

// ---------------------------------------------------------------------------
// (F) end to end through the text extractor (fonts from a resource dictionary)

func stripSpace(s string) string {
	return strings.Map(func(r rune) rune {
		if unicode.IsSpace(r) {
			return -1
		}
		return r
	}, s)
}

func runE2E(c *fw.Ctx) {
	n := c.N(600, 20000)
	tWin, err1 := enc.Load("WinAnsiEncoding")
	tMac, err2 := enc.Load("MacRomanEncoding")
	if err1 != nil || err2 != nil {
		return
	}
	c.Parallel(n, func(i int) {
		id := fmt.Sprintf("e2e:%d", i)
		if !c.Want(id) {
			return
		}
		r := c.Rand("e2e", i)
		kind := []string{"Type1", "TrueType", "Type0"}[r.Intn(3)]
		withTU := kind == "Type0" || r.Intn(3) > 0
		fs := fontSpec{kind: kind, encName: []string{"WinAnsiEncoding", "MacRomanEncoding"}[r.Intn(2)], encRef: r.Intn(2) == 0}
		if kind == "Type0" {
			fs = fontSpec{kind: kind, encName: "Identity-H"}
		}
		var data []byte
		var want string
		var prog []byte
		if withTU {
			set := 0
			if kind == "Type0" {
				set = []int{1, 1, 6, 7}[r.Intn(4)]
			}
			cc := buildCMapCase(c, "e2e", i, set, set <= 1)
			fs.toUnicode, fs.tuIndirect = cc.stream, r.Intn(2) == 0
			prog = cc.prog
			if set <= 1 && r.Intn(3) == 0 {
				data, want = bomPrefix(cc.g, r)
				c.Seen("e2e_feature", "shown string beginning FE FF / FF FE with ToUnicode present")
			}
			for k := 1 + r.Intn(30); k > 0; k-- {
				e := cc.g.m.Entries[r.Intn(len(cc.g.m.Entries))]
				data = append(data, e.Code...)
				want += e.Text
			}
			c.Seen("e2e_codespace", cc.g.set)
		} else {
			t := tWin
			if fs.encName == "MacRomanEncoding" {
				t = tMac
			}
			for k := 0; k < 30; k++ {
				code := 0x21 + r.Intn(0xDF)
				if !t.Care[code] || len(t.Alt[code]) > 0 || (len(data) == 0 && code >= 0xFE) || code == 0xA0 || code == 0xCA {
					continue
				}
				data = append(data, byte(code))
				want += string(t.Ref[code])
			}
		}
		d, st := fs.dict()
		st[30] = d
		resources := core.Dict{"Font": core.Dict{"F1": core.IndirectRef{Number: 30}}}
		// the string operand: hex or literal with escapes (both are plain ISO 32000-1 §7.3.4 syntax)
		var operand string
		if r.Intn(2) == 0 {
			operand = "<" + hex.EncodeToString(data) + ">"
		} else {
			var sb strings.Builder
			sb.WriteByte('(')
			for _, b := range data {
				fmt.Fprintf(&sb, "\\%03o", b)
			}
			sb.WriteByte(')')
			operand = sb.String()
		}
		content := fmt.Sprintf("BT /F1 12 Tf 72 700 Td %s Tj ET", operand)
		c.Case(fmt.Sprintf("e2e|%s|%x|%s", fs.String(), prog, content), true)
		c.Seen("e2e_font", strings.SplitN(fs.String(), " tounicode", 2)[0]+map[bool]string{true: " +ToUnicode", false: ""}[withTU])
		detail := map[string]any{"font": fs.String(), "content": content, "want": short(want)}
		if prog != nil {
			detail["program"] = string(prog)
		}
		c.Guard("e2e", id, detail, func() {
			ex := text.NewExtractor()
			if err := ex.RegisterFontsFromResources(resources, st.resolver()); err != nil {
				c.Fail("", "e2e-register", id, "RegisterFontsFromResources: "+err.Error(), detail)
				return
			}
			frags, err := ex.ExtractFromBytes([]byte(content))
			if err != nil {
				c.Fail("", "e2e-extract", id, "ExtractFromBytes: "+err.Error(), detail)
				return
			}
			var sb strings.Builder
			for _, f := range frags {
				sb.WriteString(f.Text)
			}
			got := sb.String()
			c.Count("e2e_fragments_checked", int64(len(frags)))
			if !utf8.ValidString(got) || !norm.NFC.IsNormalString(got) {
				detail["got"] = short(got)
				c.Fail("", "e2e-not-utf8-nfc", id, "fragment text is not valid UTF-8 in NFC: "+short(got), detail)
				return
			}
			ok := false
			if withTU {
				ok = stripSpace(got) == stripSpace(nfc(want))
			} else {
				ok = stripSpace(enc.Canon(got)) == stripSpace(enc.Canon(want))
			}
			if !ok {
				detail["got"] = short(got)
				c.Fail("", "e2e-mismatch/"+kind+map[bool]string{true: "/tounicode", false: "/encoding"}[withTU], id,
					fmt.Sprintf("extractor fragment text %s, font (%s) specifies %s", short(got), fs.String(), short(nfc(want))), detail)
			}
		})
	})
}

// Run is the C07 check.
// loadDifferencesFonts builds and uses fonts whose /Encoding dictionary has a
// /Differences array before anything else runs. What such a font decodes to is
// not judged (the statement speaks about the named base encodings and
// ToUnicode); the point is that the named encodings, which every later font
// and the exhaustive table comparison use, are the same afterwards.
func loadDifferencesFonts(c *fw.Ctx) {
	glyphs := []string{"Euro", "bullet", "emdash", "Adieresis", "eacute", "quotesingle", "grave", "fi", "Omega", "space", "A", "zero"}
	r := c.Rand("differences")
	n := 0
	for _, base := range []string{"WinAnsiEncoding", "MacRomanEncoding", "StandardEncoding", ""} {
		for _, kind := range []string{"Type1", "TrueType"} {
			diff := core.Array{}
			for k := 0; k < 6; k++ {
				diff = append(diff, core.Int(32+r.Intn(200)))
				for j := 1 + r.Intn(3); j > 0; j-- {
					diff = append(diff, core.Name(glyphs[r.Intn(len(glyphs))]))
				}
			}
			enc := core.Dict{"Type": core.Name("Encoding"), "Differences": diff}
			if base != "" {
				enc["BaseEncoding"] = core.Name(base)
			}
			d := core.Dict{"Type": core.Name("Font"), "Subtype": core.Name(kind), "BaseFont": core.Name("Helvetica"), "Encoding": enc}
			all := make([]byte, 224)
			for i := range all {
				all[i] = byte(32 + i)
			}
			c.Guard("differences-font", "diff:"+kind+":"+base, nil, func() {
				switch kind {
				case "Type1":
					if f, err := font.NewType1Font(d, store{}.resolver()); err == nil && f != nil {
						f.Font.DecodeString(all)
						n++
					}
				default:
					if f, err := font.NewTrueTypeFont(d, store{}.resolver()); err == nil && f != nil {
						f.Font.DecodeString(all)
						n++
					}
				}
			})
		}
	}
	c.Count("fonts_with_differences_loaded_first", int64(n))
}

func Run(c *fw.Ctx) {
	c.Rule("case = (encoding, code) | (CMap program, lookup strings) | (UTF-16 byte string) | (font dictionary, code string); " +
		"non-trivial iff the code maps to a non-ASCII or multi-unit target (encodings, UTF-16), the CMap program has >= 1 bfrange entry, " +
		"or (precedence) the ToUnicode map disagrees with the font's encoding on >= 1 code; distinct by hash of program/input")
	c.Assume(
		"reference tables: Tcl 8.6 cp1252/macRoman/symbol/dingbats, ISO 32000-1 Annex D transcription for Standard/PDFDoc; masked = byte < 0x20, undefined or control or private-use reference value, the 15 Mac-OS-only code points; alias pairs of DESIGN.md §5 C07 compare equal",
		"texts are compared after NFC on both sides (weaker reading of 'specified text' + 'NFC')",
		"generated CMaps follow ISO 32000-1 §9.10.3 / Adobe TN 5014+5411: <= 100 entries per section, bfrange codes differ only in the last byte, offset-form ranges never carry out of the last target byte, codes unique, mixed-width codespaces prefix-free, codes of different widths numerically distinct; lookup strings contain only mapped codes",
		"golang.org/x/text/unicode/norm is the NFC reference (same module version as tabula's)",
		"PostScript comments in generated CMaps (the DSC header of CMap resources, a remark in front of a section) carry no CMap operators and no hex strings: the statement does not speak about comments, and the pinned parser finds operators by text search, so a comment that spells an operator is outside what is asserted",
	)
	loadDifferencesFonts(c)
	runTables(c)
	runCMaps(c)
	runUTF16(c)
	runPrecedence(c)
	runInvariant(c)
	runE2E(c)
	c.Exhaustive(false)
	c.Extra("exhaustive_subspace", "256 codes x 6 named encodings x 4 entry points (GetEncoding.DecodeString, .Decode, DecodeWithEncoding, Font.DecodeString)")
	if c.Only == "" && c.Evaluations() < 1000 {
		c.Inconclusive("fewer than 1000 cases executed")
	}
}
