package c07

import (
	"fmt"
	"math/rand"

	"verifharness/ref/cmapw"
)

// codespace layouts. Every mixed layout is prefix-free (no code of a shorter
// range is a prefix of a code of a longer one), the condition under which the
// CMap specification's codespace matching is unambiguous.
type spaceSet struct {
	name   string
	spaces []cmapw.Space
}

func sp(lo, hi string) cmapw.Space { return cmapw.Space{Lo: []byte(lo), Hi: []byte(hi)} }

var spaceSets = []spaceSet{
	{"w1", []cmapw.Space{sp("\x00", "\xFF")}},
	{"w2", []cmapw.Space{sp("\x00\x00", "\xFF\xFF")}},
	{"w3", []cmapw.Space{sp("\x00\x00\x00", "\xFF\xFF\xFF")}},
	{"w4", []cmapw.Space{sp("\x00\x00\x00\x00", "\xFF\xFF\xFF\xFF")}},
	{"w1-two-ranges", []cmapw.Space{sp("\x20", "\x7E"), sp("\xA0", "\xFF")}},
	{"w2-two-ranges", []cmapw.Space{sp("\x00\x00", "\x7F\xFF"), sp("\x80\x00", "\xFF\xFF")}},
	{"mixed-sjis", []cmapw.Space{sp("\x00", "\x80"), sp("\x81\x40", "\x9F\xFC"), sp("\xA0", "\xDF"), sp("\xE0\x40", "\xFC\xFC")}},
	{"mixed-1-2", []cmapw.Space{sp("\x00", "\x7F"), sp("\x80\x00", "\xFF\xFF")}},
	{"mixed-euc-1-2-3", []cmapw.Space{sp("\x00", "\x80"), sp("\x8E\xA0", "\x8E\xDF"), sp("\xA1\xA1", "\xFE\xFE"), sp("\x8F\xA1\xA1", "\x8F\xFE\xFE")}},
	{"mixed-1-4", []cmapw.Space{sp("\x00", "\x7F"), sp("\x80\x00\x00\x00", "\xFF\xFF\xFF\xFF")}},
	{"mixed-2-first", []cmapw.Space{sp("\x81\x40", "\xFE\xFE"), sp("\x00", "\x80")}},
}

func isMixed(ss []cmapw.Space) bool {
	for _, s := range ss {
		if len(s.Lo) != len(ss[0].Lo) {
			return true
		}
	}
	return false
}

// ---- target texts ------------------------------------------------------------

// rune pools (all assigned, no controls, no surrogates, no noncharacters, no
// U+FEFF, no private use)
var bmpBlocks = [][2]rune{
	{0x0021, 0x007E}, {0x00A1, 0x00FF}, {0x0100, 0x017F}, {0x0391, 0x03A1}, {0x03B1, 0x03C9},
	{0x0410, 0x044F}, {0x05D0, 0x05EA}, {0x0627, 0x063A}, {0x0905, 0x0939}, {0x0E01, 0x0E2E},
	{0x1E00, 0x1EFF}, {0x2010, 0x2027}, {0x20A0, 0x20B5}, {0x2190, 0x21FF}, {0x2200, 0x22FF},
	{0x2460, 0x24FF}, {0x2500, 0x257F}, {0x3041, 0x3096}, {0x30A1, 0x30FA}, {0x4E00, 0x9FA5},
	{0xAC00, 0xD7A3}, {0xFB00, 0xFB06}, {0xFF01, 0xFF5E},
}
var suppBlocks = [][2]rune{
	{0x10000, 0x1005D}, {0x10330, 0x1034A}, {0x1D400, 0x1D454}, {0x1D7CE, 0x1D7FF}, {0x1F300, 0x1F5FF},
	{0x1F600, 0x1F64F}, {0x1F680, 0x1F6C5}, {0x20000, 0x2A6D6}, {0x2F800, 0x2FA1D},
}
var combining = []rune{0x0300, 0x0301, 0x0302, 0x0303, 0x0308, 0x030A, 0x030C, 0x0327, 0x0328, 0x0323, 0x3099, 0x309A}
var ligatures = []string{"ff", "fi", "fl", "ffi", "ffl", "st", "ct", "Th", "tt", "fj", "IJ", "ij", "...", "1/2", "(c)", "TM", "Rs", "No", "ä", "é", "ố", "Å", "ç", "क्ष", "が", "\U0001F468‍\U0001F469", "\U0001F1E9\U0001F1EA"}

func pickRune(r *rand.Rand, blocks [][2]rune) rune {
	b := blocks[r.Intn(len(blocks))]
	return b[0] + rune(r.Intn(int(b[1]-b[0])+1))
}

// randText returns one target and its kind (bmp | supp | multi).
func randText(r *rand.Rand) (string, string) {
	switch x := r.Intn(10); {
	case x < 5:
		return string(pickRune(r, bmpBlocks)), "bmp"
	case x < 7:
		return string(pickRune(r, suppBlocks)), "supp"
	default:
		switch r.Intn(4) {
		case 0:
			return ligatures[r.Intn(len(ligatures))], "multi"
		case 1: // base + combining marks (may or may not be NFC)
			s := string(pickRune(r, [][2]rune{{0x41, 0x5A}, {0x61, 0x7A}, {0x0391, 0x03A1}, {0x0410, 0x044F}}))
			for k := 1 + r.Intn(2); k > 0; k-- {
				s += string(combining[r.Intn(10)])
			}
			return s, "multi"
		case 2: // several characters incl. supplementary
			n := 2 + r.Intn(3)
			s := ""
			for k := 0; k < n; k++ {
				if r.Intn(3) == 0 {
					s += string(pickRune(r, suppBlocks))
				} else {
					s += string(pickRune(r, bmpBlocks))
				}
			}
			return s, "multi"
		default:
			return string(pickRune(r, bmpBlocks)) + string(pickRune(r, bmpBlocks)), "multi"
		}
	}
}

// ---- maps --------------------------------------------------------------------

type genMap struct {
	m        *cmapw.Map
	set      string
	mixed    bool
	kinds    map[string]int // target kinds
	seqRuns  int            // runs built to be offset-compatible
	maxRun   int
	maxWidth int
}

func randCodeIn(r *rand.Rand, s cmapw.Space) []byte {
	c := make([]byte, len(s.Lo))
	for i := range c {
		c[i] = s.Lo[i] + byte(r.Intn(int(s.Hi[i])-int(s.Lo[i])+1))
	}
	return c
}

func codeVal(c []byte) uint32 {
	var v uint32
	for _, b := range c {
		v = v<<8 | uint32(b)
	}
	return v
}

// genCMap builds a random map. noMixed excludes mixed-width codespace sets
// (counterfactual for the mixed-width finding, if open).
func genCMap(r *rand.Rand, forceSet int) *genMap {
	set := spaceSets[r.Intn(len(spaceSets))]
	if forceSet >= 0 {
		set = spaceSets[forceSet]
	}
	g := &genMap{m: &cmapw.Map{Spaces: set.spaces}, set: set.name, mixed: isMixed(set.spaces), kinds: map[string]int{}}
	used := map[string]bool{}
	usedVal := map[uint32]int{} // numeric value -> width (bound: codes of different widths are numerically distinct)
	nRuns := 1 + r.Intn(14)
	if r.Intn(6) == 0 {
		nRuns = 15 + r.Intn(40)
	}
	for k := 0; k < nRuns; k++ {
		s := set.spaces[r.Intn(len(set.spaces))]
		start := randCodeIn(r, s)
		n := len(start)
		if n > g.maxWidth {
			g.maxWidth = n
		}
		room := int(s.Hi[n-1]) - int(start[n-1]) + 1
		L := 1
		switch r.Intn(5) {
		case 0:
		case 1, 2:
			L = 1 + r.Intn(8)
		case 3:
			L = 1 + r.Intn(40)
		default:
			L = 1 + r.Intn(130)
		}
		if L > room {
			L = room
		}
		seq := r.Intn(2) == 0
		var base string
		var bkind string
		if seq {
			base, bkind = randText(r)
			// leave room in the last byte of the last UTF-16 unit
			u := cmapw.Units(base)
			low := int(u[len(u)-1] & 0xFF)
			if low+L-1 > 0xFF {
				L = 0xFF - low + 1
			}
			g.seqRuns++
		}
		made := 0
		for i := 0; i < L; i++ {
			code := append([]byte{}, start...)
			code[n-1] = start[n-1] + byte(i)
			key := string(code)
			if w, ok := usedVal[codeVal(code)]; used[key] || (ok && w != n) {
				break // keep runs contiguous: stop at the first collision
			}
			var text, kind string
			if seq {
				t, ok := cmapw.OffsetText(base, i)
				if !ok || !validText(t) {
					break
				}
				text, kind = t, bkind
			} else {
				text, kind = randText(r)
			}
			used[key] = true
			usedVal[codeVal(code)] = n
			g.m.Entries = append(g.m.Entries, cmapw.Entry{Code: code, Text: text})
			g.kinds[kind]++
			made++
		}
		if made > g.maxRun {
			g.maxRun = made
		}
	}
	if len(g.m.Entries) == 0 { // cannot happen (first code is always free), keep the invariant explicit
		panic("empty map")
	}
	return g
}

// validText: the incremented target must still be assigned-looking text (stay
// out of surrogates / noncharacters / U+FEFF; the increment never leaves the
// 256-block, so only block edges matter).
func validText(s string) bool {
	for _, c := range s {
		if c == 0xFFFD || c == 0xFEFF || c&0xFFFE == 0xFFFE || (c >= 0xFDD0 && c <= 0xFDEF) || c < 0x20 || (c >= 0x7F && c <= 0x9F) {
			return false
		}
	}
	return true
}

func randPolicy(r *rand.Rand) cmapw.Policy {
	p := cmapw.Policy{
		Layout:     []string{"lines", "lines", "crlf", "cr", "oneline", "oneline"}[r.Intn(6)],
		Tight:      r.Intn(4) == 0,
		UpperHex:   r.Intn(2) == 0,
		PRange:     []float64{0, 0.5, 0.9, 1}[r.Intn(4)],
		PArray:     []float64{0, 0.3, 0.7, 1}[r.Intn(4)],
		MaxSection: []int{1, 2, 5, 30, 100, 100}[r.Intn(6)],
		ArrayBreak: []int{0, 0, 1, 4, 16}[r.Intn(5)],
		HexBlank:   r.Intn(5) == 0,
		FullHeader: r.Intn(3) > 0,
		Grouped:    r.Intn(2) == 0,
	}
	p.SectionOrder = []string{"", "", "reverse", "shuffle"}[r.Intn(4)]
	p.Comments = r.Intn(3) == 0
	p.Damaged = r.Intn(5) == 0
	return p
}

func (g *genMap) describe() string {
	return fmt.Sprintf("set=%s entries=%d kinds=%v seqRuns=%d maxRun=%d", g.set, len(g.m.Entries), g.kinds, g.seqRuns, g.maxRun)
}
