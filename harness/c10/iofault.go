package c10

// I/O fault injection (strace -e inject=...): drives the error paths of every
// reader with EIO on the N-th pread64/read and checks: never a panic, the
// process survives, and no descriptor is left open after the terminal operation
// (whether it succeeded or failed).

import (
	"crypto/sha256"
	"encoding/hex"
	"encoding/json"
	"fmt"
	"os"
	"os/exec"
	"path/filepath"
	"strings"

	"github.com/tsawler/tabula"

	"verifharness/fw"
)

type ioReq struct {
	Path string
	Ops  []string
}

type ioOp struct {
	Op     string
	Err    string
	Digest string
	FDs    []string // descriptors on the document directory still open after the op
}

type ioResp struct{ Ops []ioOp }

func init() {
	fw.RegisterWorker("c10io", func(b []byte) []byte {
		var rq ioReq
		json.Unmarshal(b, &rq)
		var rp ioResp
		dir := filepath.Dir(rq.Path)
		for _, op := range rq.Ops {
			o := ioOp{Op: op}
			var out string
			var err error
			switch op {
			case "Text":
				out, _, err = tabula.Open(rq.Path).Text()
			case "ToMarkdown":
				out, _, err = tabula.Open(rq.Path).ToMarkdown()
			case "Fragments":
				fr, _, e := tabula.Open(rq.Path).Fragments()
				err = e
				for _, f := range fr {
					out += f.Text + "\n"
				}
			case "Chunks":
				cc, _, e := tabula.Open(rq.Path).Chunks()
				err = e
				if e == nil && cc != nil {
					out, _ = cc.ToJSONL()
				}
			case "Document":
				d, _, e := tabula.Open(rq.Path).Document()
				err = e
				if e == nil && d != nil {
					out = fmt.Sprint(len(d.Pages))
				}
			case "PageCount+Close":
				ex := tabula.Open(rq.Path)
				n, e := ex.PageCount()
				err = e
				out = fmt.Sprint(n)
				ex.Close()
				ex.Close()
			}
			if err != nil {
				o.Err = err.Error()
			} else {
				h := sha256.Sum256([]byte(out))
				o.Digest = hex.EncodeToString(h[:8])
			}
			o.FDs = fdsOf(dir)
			rp.Ops = append(rp.Ops, o)
		}
		b, _ = json.Marshal(rp)
		return b
	})
}

var ioOps = []string{"Text", "ToMarkdown", "Fragments", "Chunks", "Document", "PageCount+Close"}

// runOneShot executes the c10io handler in a fresh process, optionally under strace injection.
func runOneShot(c *fw.Ctx, dir, tag, path, inject string) (*ioResp, string, bool) {
	exe, _ := os.Executable()
	reqf := filepath.Join(dir, tag+".req")
	outf := filepath.Join(dir, tag+".out")
	b, _ := json.Marshal(ioReq{Path: path, Ops: ioOps})
	os.WriteFile(reqf, b, 0o644)
	os.Remove(outf)
	os.Remove(outf + ".started")
	var cmd *exec.Cmd
	if inject == "" {
		cmd = exec.Command(exe, "oneshot", "c10io", reqf, outf)
	} else {
		sc := strings.SplitN(inject, ":", 2)[0]
		cmd = exec.Command("strace", "-f", "-o", "/dev/null", "-e", "trace="+sc, "-e", "inject="+inject, exe, "oneshot", "c10io", reqf, outf)
	}
	errb, _ := cmd.CombinedOutput()
	defer func() { os.Remove(reqf); os.Remove(outf); os.Remove(outf + ".started") }()
	_, started := os.Stat(outf + ".started")
	ob, err := os.ReadFile(outf)
	if err != nil {
		return nil, string(errb), started == nil
	}
	ok, resp, pmsg, stack, err := fw.OneShotReply(ob)
	if err != nil {
		return nil, string(errb), started == nil
	}
	if !ok {
		return nil, "PANIC: " + pmsg + "\n" + stack, true
	}
	var rp ioResp
	json.Unmarshal(resp, &rp)
	return &rp, string(errb), true
}

// ioFaults runs the injection matrix over the given documents.
func ioFaults(c *fw.Ctx, dir string, docs []string) {
	if _, err := exec.LookPath("strace"); err != nil {
		c.Extra("io_fault_injection", "strace not available: skipped")
		return
	}
	maxN := c.N(10, 40)
	type job struct {
		doc    int
		inject string
	}
	var jobs []job
	for di := range docs {
		for _, sc := range []string{"pread64", "read"} {
			for n := 1; n <= maxN; n++ {
				jobs = append(jobs, job{di, fmt.Sprintf("%s:error=EIO:when=%d", sc, n)})
				if !c.Quick() || n%3 == 0 {
					jobs = append(jobs, job{di, fmt.Sprintf("%s:error=EIO:when=%d+", sc, n)})
				}
			}
		}
	}
	base := make([]*ioResp, len(docs))
	for di, p := range docs {
		rp, errs, _ := runOneShot(c, dir, fmt.Sprintf("iobase%d", di), p, "")
		if rp == nil {
			c.Fail("", "io-baseline", fmt.Sprintf("io:base:%d", di), "one-shot worker without injection failed: "+fw.OneLine(errs, 300), nil)
			return
		}
		base[di] = rp
	}
	c.Parallel(len(jobs), func(i int) {
		j := jobs[i]
		id := fmt.Sprintf("io:%d:%s", j.doc, j.inject)
		if !c.Want(id) {
			return
		}
		rp, errs, started := runOneShot(c, dir, fmt.Sprintf("io%d", i), docs[j.doc], j.inject)
		c.Case("io|"+filepath.Ext(docs[j.doc])+"|"+j.inject, true)
		c.Count("io_fault_runs", 1)
		if rp == nil {
			switch {
			case strings.HasPrefix(errs, "PANIC:"):
				c.Fail("", "io-panic/"+fw.InnermostTabulaFrame(errs), id, "panic under injected I/O error "+j.inject+" on "+filepath.Base(docs[j.doc])+": "+fw.OneLine(errs, 300), map[string]any{"stack": errs})
			case started && (strings.Contains(errs, "github.com/tsawler/tabula") || strings.Contains(errs, "fatal error")):
				c.Fail("", "io-fatal/"+fw.InnermostTabulaFrame(errs), id, "process died under injected I/O error "+j.inject+": "+fw.OneLine(errs, 300), map[string]any{"stderr": errs})
			default:
				c.Count("io_fault_hit_harness_or_runtime", 1) // the fault hit the Go runtime's or the harness' own I/O
			}
			return
		}
		for k, o := range rp.Ops {
			b := base[j.doc].Ops[k]
			c.Count("io_ops_checked", 1)
			if o.Err != "" {
				c.Count("io_ops_errored", 1)
			} else if o.Digest != b.Digest {
				// A value that differs from the fault-free run without an error (an optional
				// part or a chapter that could not be read is skipped): observed, but no
				// property promises that I/O errors are reported, so it is not asserted.
				c.Count("io_ops_value_differs_without_error", 1)
				c.Count("io_ops_value_differs_without_error"+filepath.Ext(docs[j.doc]), 1)
			} else {
				c.Count("io_ops_same_value", 1)
			}
			if len(o.FDs) > 0 {
				c.Fail("", "io-fd-leak/"+o.Op, id, fmt.Sprintf("%s on %s under %s (err=%q) left descriptors open: %v", o.Op, filepath.Base(docs[j.doc]), j.inject, o.Err, o.FDs), nil)
			}
		}
	})
}
