package c10

import (
	"fmt"
	"os"
	"path/filepath"
	"reflect"
	"strings"

	"github.com/tsawler/tabula"
	"github.com/tsawler/tabula/rag"

	"verifharness/fw"
	"verifharness/gen/pdfw"
)

// Documents whose every page opens with a large heading line: the chunks of a
// page (text, section title and path, element types) are then determined by the
// page alone, so chunking a selection must give, for each selected page, the
// chunks the whole-document run gives for that page.
func runHeadingDoc(c *fw.Ctx, dir string, i int) {
	id := fmt.Sprintf("hdoc:%d", i)
	if !c.Want(id) {
		return
	}
	r := c.Rand("hdoc", i)
	tk := fw.NewTokens(r)
	np := 3 + r.Intn(5)
	var pages []pdfw.SimplePage
	for p := 0; p < np; p++ {
		pg := pdfw.SimplePage{W: 612, H: 792}
		pg.Items = append(pg.Items, pdfw.SimpleItem{X: 72, Y: 720, Size: 24, Text: "Chapter " + tk.Next(), Bold: true})
		y := 680.0
		for l := 0; l < 5+r.Intn(6); l++ {
			pg.Items = append(pg.Items, pdfw.SimpleItem{X: 72, Y: y, Size: 11, Text: tk.Next() + " plain body text of the page " + tk.Next() + " goes on here."})
			y -= 15
		}
		pages = append(pages, pg)
	}
	path := filepath.Join(dir, fmt.Sprintf("h%05d.pdf", i))
	if err := os.WriteFile(path, pdfw.SimplePDF(pages), 0o644); err != nil {
		c.Inconclusive("cannot write scratch file: " + err.Error())
		return
	}
	defer os.Remove(path)
	type view struct {
		Text  string
		Title string
		Path  []string
		Types []string
		Level int
	}
	key := func(ch *rag.Chunk) (string, view) {
		toks := fw.FindTokens(ch.Text)
		k := ""
		if len(toks) > 0 {
			k = toks[0]
		}
		return k, view{strings.Join(strings.Fields(ch.Text), " "), ch.Metadata.SectionTitle, ch.Metadata.SectionPath, ch.Metadata.ElementTypes, ch.Metadata.HeadingLevel}
	}
	c.Case(fmt.Sprintf("hdoc|%d|%d", i, np), true)
	c.Guard("hdoc", id, nil, func() {
		whole, _, err := tabula.Open(path).Chunks()
		if err != nil {
			c.Fail("", "heading-doc/error", id, "Chunks() on the whole document: "+err.Error(), nil)
			return
		}
		render := func(v view) string { return fmt.Sprintf("%+v", v) }
		byPage := map[int][]string{}
		seen := map[string]int{}
		for _, ch := range whole.Chunks {
			if ch.Metadata.PageStart != ch.Metadata.PageEnd {
				return // a chunk spanning pages: the per-page comparison does not apply to this document
			}
			_, v := key(ch)
			byPage[ch.Metadata.PageStart] = append(byPage[ch.Metadata.PageStart], render(v))
			for _, t := range fw.FindTokens(ch.Text) {
				seen[t]++
			}
		}
		for t, n := range seen {
			if n != 1 {
				c.Fail("", "heading-doc/text-repeated", id, fmt.Sprintf("Chunks() on the whole document shows %s %d times (every line of the pages is drawn once)", t, n), nil)
				return
			}
		}
		for s := 0; s < 4; s++ {
			var sel []int
			for p := 1; p <= np; p++ {
				if r.Intn(2) == 0 {
					sel = append(sel, p)
				}
			}
			if len(sel) == 0 {
				sel = []int{np}
			}
			if s == 0 {
				sel = []int{2 + r.Intn(np-1)} // a single page that is not the first
			}
			got, _, err := tabula.Open(path).Pages(sel...).Chunks()
			if err != nil {
				c.Fail("", "heading-doc/error", id, fmt.Sprintf("Pages(%v).Chunks(): %v", sel, err), nil)
				return
			}
			c.Count("heading_doc_selections", 1)
			gotBy := map[int][]string{}
			for _, ch := range got.Chunks {
				_, v := key(ch)
				gotBy[ch.Metadata.PageStart] = append(gotBy[ch.Metadata.PageStart], render(v))
			}
			for _, p := range sel {
				c.Count("heading_doc_chunks_compared", int64(len(byPage[p])))
				if !reflect.DeepEqual(gotBy[p], byPage[p]) {
					c.Fail("", "heading-doc/chunk-differs", id, fmt.Sprintf("Pages(%v).Chunks(): page %d gives the chunks %v, in the whole-document run it gives %v", sel, p, gotBy[p], byPage[p]), nil)
					return
				}
				delete(gotBy, p)
			}
			if len(gotBy) > 0 {
				c.Fail("", "heading-doc/chunk-foreign-page", id, fmt.Sprintf("Pages(%v).Chunks() has chunks of pages outside the selection: %v", sel, gotBy), nil)
				return
			}
		}
	})
}
