// Package c10: page selection and option chaining are algebraic; handles are released.
//
// Each case runs in an isolated single-goroutine worker (so /proc/self/fd is
// quiet): a generated multi-page PDF with per-page unique tokens, a list of
// selection spellings and an operation history. Oracles: composition of
// single-page baselines; comparison of a base extractor with a freshly built
// equal one after derived use; /proc/self/fd snapshots around every step.
package c10

import (
	"encoding/json"
	"fmt"
	"math/rand"
	"os"
	"path/filepath"
	"reflect"
	"sort"
	"strings"
	"time"
	"unicode"

	"github.com/tsawler/tabula"
	"github.com/tsawler/tabula/text"

	"verifharness/fw"
	"verifharness/gen/pdfw"
)

// ---- request / response ---------------------------------------------------------

type builderCall struct {
	Kind string // Pages | PageRange | ByColumn | JoinParagraphs | PreserveLayout | ExcludeHeaders | ExcludeFooters | ExcludeHF
	Args []int
}

type spelling struct {
	Calls []builderCall
	Want  []int // expected page numbers (1-based, ascending, unique); nil = error expected
	Note  string
}

type histStep struct {
	Target int           // extractor slot the step acts on
	Op     string        // derive | PageCount | IsMultiColumn | IsCharacterLevel | Text | Fragments | Document | Chunks | Close
	Calls  []builderCall // for derive: builder calls applied to Target, result stored in a new slot
}

// sibling scenario: several extractors derived from one shared base; each must
// behave like a freshly built chain (deriving never changes the base nor a sibling).
type siblingCase struct {
	Base   []builderCall
	Derive [][]builderCall
}

type request struct {
	Siblings  []siblingCase
	Path      string
	NPages    int
	PageToks  [][]string // tokens per page in content order
	Spellings []spelling
	History   []histStep
	BadFiles  []string // files that must fail to open (any format); fd must return to baseline
	BadPages  []int    // pages whose content stream cannot be decoded: selections that avoid them are unaffected
}

type failure struct {
	Class string
	What  string
}

type response struct {
	Fails    []failure
	Counters map[string]int64
}

func stripWS(s string) string {
	var b strings.Builder
	for _, r := range s {
		if !unicode.IsSpace(r) && r != 0xA0 {
			b.WriteRune(r)
		}
	}
	return b.String()
}

func apply(e *tabula.Extractor, calls []builderCall) *tabula.Extractor {
	for _, c := range calls {
		switch c.Kind {
		case "Pages":
			e = e.Pages(c.Args...)
		case "PageRange":
			e = e.PageRange(c.Args[0], c.Args[1])
		case "ByColumn":
			e = e.ByColumn()
		case "JoinParagraphs":
			e = e.JoinParagraphs()
		case "PreserveLayout":
			e = e.PreserveLayout()
		case "ExcludeHeaders":
			e = e.ExcludeHeaders()
		case "ExcludeFooters":
			e = e.ExcludeFooters()
		case "ExcludeHF":
			e = e.ExcludeHeadersAndFooters()
		}
	}
	return e
}

// fdsOf lists /proc/self/fd entries that point at path-like targets (files), by name.
func fdsOf(prefix string) []string {
	ents, err := os.ReadDir("/proc/self/fd")
	if err != nil {
		return nil
	}
	var out []string
	for _, e := range ents {
		t, err := os.Readlink("/proc/self/fd/" + e.Name())
		if err != nil {
			continue
		}
		if strings.HasPrefix(t, prefix) {
			out = append(out, t)
		}
	}
	sort.Strings(out)
	return out
}

type fragKey struct {
	Text             string
	X, Y, W, H, Size float64
	Font             string
}

func keyOf(f text.TextFragment) fragKey {
	return fragKey{f.Text, f.X, f.Y, f.Width, f.Height, f.FontSize, f.FontName}
}

func work(rq request) response {
	rp := response{Counters: map[string]int64{}}
	add := func(class, f string, a ...any) {
		if len(rp.Fails) < 40 {
			rp.Fails = append(rp.Fails, failure{class, fmt.Sprintf(f, a...)})
		}
	}
	dir := filepath.Dir(rq.Path)
	base0 := fdsOf(dir)
	if len(base0) != 0 {
		add("harness", "descriptors open before the case: %v", base0)
	}
	// single-page baselines
	type pageBase struct {
		text  string
		frags []fragKey
	}
	bases := make([]pageBase, rq.NPages+1)
	badPage := map[int]bool{}
	for _, p := range rq.BadPages {
		badPage[p] = true
	}
	for i := 1; i <= rq.NPages; i++ {
		if badPage[i] {
			// an unreadable page: whatever selecting it gives (an error, a warning and
			// nothing) is not asserted; it must not disturb selections that avoid it
			_, _, err := tabula.Open(rq.Path).Pages(i).Text()
			if err != nil {
				rp.Counters["unreadable_page_selected_alone_errors"]++
			} else {
				rp.Counters["unreadable_page_selected_alone_succeeds"]++
			}
			continue
		}
		t, _, err := tabula.Open(rq.Path).Pages(i).Text()
		if err != nil {
			add("baseline", "Pages(%d).Text() error: %v", i, err)
			return rp
		}
		fr, _, err := tabula.Open(rq.Path).Pages(i).Fragments()
		if err != nil {
			add("baseline", "Pages(%d).Fragments() error: %v", i, err)
			return rp
		}
		var ks []fragKey
		for _, f := range fr {
			ks = append(ks, keyOf(f))
		}
		bases[i] = pageBase{t, ks}
		if got := fw.FindTokens(t); !reflect.DeepEqual(got, rq.PageToks[i-1]) && len(got)+len(rq.PageToks[i-1]) > 0 {
			add("single-page", "Pages(%d).Text() carries tokens %v, page %d shows %v", i, head(got), i, head(rq.PageToks[i-1]))
		}
	}
	if l := fdsOf(dir); len(l) != 0 {
		add("fd-leak", "after the single-page baselines %d descriptor(s) still open: %v", len(l), l)
	}
	tokPage := map[string]int{}
	for i, ts := range rq.PageToks {
		for _, t := range ts {
			tokPage[t] = i + 1
		}
	}

	exclBase := map[string][]string{} // (exclusion options, page) -> tokens of that page selected alone
	// ---- selection algebra
	for si, sp := range rq.Spellings {
		name := fmt.Sprintf("spelling %d %s %v", si, sp.Note, sp.Calls)
		ex := func() *tabula.Extractor { return apply(tabula.Open(rq.Path), sp.Calls) }
		txt, _, errT := ex().Text()
		frs, _, errF := ex().Fragments()
		doc, _, errD := ex().Document()
		cc, _, errC := ex().Chunks()
		rp.Counters["selections_checked"]++
		touchesBad := false
		for _, p := range sp.Want {
			touchesBad = touchesBad || badPage[p]
		}
		if touchesBad {
			rp.Counters["selections_including_an_unreadable_page"]++
			// whether a selection with an unreadable page can be served is one answer,
			// not one per terminal operation
			if n := b2i(errT == nil) + b2i(errF == nil) + b2i(errD == nil) + b2i(errC == nil); n != 0 && n != 4 {
				add("unreadable-page-ops-disagree", "%s (includes an unreadable page): Text err=%v, Fragments err=%v, Document err=%v, Chunks err=%v", name, errT, errF, errD, errC)
			}
			if l := fdsOf(dir); len(l) != 0 {
				add("fd-leak", "%s (includes an unreadable page): %d descriptor(s) open after four terminal operations: %v", name, len(l), l)
			}
			continue
		}
		if len(rq.BadPages) > 0 && sp.Want != nil {
			rp.Counters["selections_avoiding_an_unreadable_page"]++
		}
		if sp.Want == nil {
			for op, err := range map[string]error{"Text": errT, "Fragments": errF, "Document": errD, "Chunks": errC} {
				if err == nil {
					add("out-of-range-accepted", "%s: %s() succeeded although a page number lies outside 1..%d", name, op, rq.NPages)
				}
			}
			continue
		}
		for op, err := range map[string]error{"Text": errT, "Fragments": errF, "Document": errD, "Chunks": errC} {
			if err != nil {
				add("selection-error", "%s: %s() error: %v", name, op, err)
			}
		}
		if errT == nil {
			var wantToks []string
			var wantRunes strings.Builder
			for _, p := range sp.Want {
				if ex := exclusionCalls(sp.Calls); len(ex) > 0 {
					// header/footer exclusion looks at the whole document (a fragment that
					// repeats at the same marginal position on several pages goes, even a
					// piece of a token): the per-page result is the page selected alone
					// under the same exclusion options
					k := fmt.Sprint(ex, p)
					if _, ok := exclBase[k]; !ok {
						t, _, err := apply(tabula.Open(rq.Path).Pages(p), ex).Text()
						if err != nil {
							add("baseline", "Pages(%d) with %v: Text() error: %v", p, ex, err)
						}
						exclBase[k] = fw.FindTokens(t)
					}
					wantToks = append(wantToks, exclBase[k]...)
				} else {
					wantToks = append(wantToks, rq.PageToks[p-1]...)
				}
				wantRunes.WriteString(stripWS(bases[p].text))
			}
			got := fw.FindTokens(txt)
			if !reflect.DeepEqual(got, wantToks) && len(got)+len(wantToks) > 0 {
				add("text-composition", "%s: Text() tokens %v, composition of pages %v gives %v", name, head(got), sp.Want, head(wantToks))
			} else if !hasTextMode(sp.Calls) && stripWS(txt) != wantRunes.String() {
				add("text-composition", "%s: Text() differs (white space aside) from the concatenation of the single-page texts of pages %v", name, sp.Want)
			}
			rp.Counters["tokens_traced"] += int64(len(wantToks))
		}
		if errF == nil {
			var want []fragKey
			for _, p := range sp.Want {
				want = append(want, bases[p].frags...)
			}
			var got []fragKey
			for _, f := range frs {
				got = append(got, keyOf(f))
			}
			if !reflect.DeepEqual(got, want) && len(got)+len(want) > 0 {
				add("fragments-composition", "%s: Fragments() is not the concatenation of the single-page fragment lists of pages %v (%d vs %d fragments)", name, sp.Want, len(got), len(want))
			}
			rp.Counters["fragments_compared"] += int64(len(want))
		}
		if errD == nil && doc != nil {
			if len(doc.Pages) != len(sp.Want) {
				add("document-pages", "%s: Document() has %d pages, selection has %d", name, len(doc.Pages), len(sp.Want))
			} else {
				for j, pg := range doc.Pages {
					if pg.Number != sp.Want[j] {
						add("document-page-number", "%s: Document().Pages[%d].Number = %d, its content comes from page %d", name, j, pg.Number, sp.Want[j])
					}
					var sb strings.Builder
					for _, f := range pg.RawText {
						sb.WriteString(f.Text + " ")
					}
					for _, t := range fw.FindTokens(sb.String()) {
						if tokPage[t] != sp.Want[j] {
							add("document-page-content", "%s: Document().Pages[%d] (page %d) carries token %s of page %d", name, j, sp.Want[j], t, tokPage[t])
							break
						}
					}
				}
			}
		}
		if errC == nil && cc != nil {
			sel := map[int]bool{}
			for _, p := range sp.Want {
				sel[p] = true
			}
			for _, ch := range cc.ToSlice() {
				toks := fw.FindTokens(ch.Text)
				rp.Counters["chunks_checked"]++
				if len(toks) == 0 {
					continue
				}
				lo, hi := rq.NPages+1, 0
				for _, t := range toks {
					p := tokPage[t]
					if p < lo {
						lo = p
					}
					if p > hi {
						hi = p
					}
					if !sel[p] {
						add("chunk-foreign-page", "%s: chunk %s carries token %s of page %d which is not selected", name, ch.ID, t, p)
					}
				}
				ps, pe := ch.Metadata.PageStart, ch.Metadata.PageEnd
				if ps > lo || pe < hi || !sel[ps] || !sel[pe] {
					add("chunk-page-metadata", "%s: chunk %s reports pages %d-%d, its tokens come from pages %d-%d (selection %v)", name, ch.ID, ps, pe, lo, hi, sp.Want)
				}
			}
		}
		if l := fdsOf(dir); len(l) != 0 {
			add("fd-leak", "%s: %d descriptor(s) open after four terminal operations: %v", name, len(l), l)
		}
	}

	// ---- siblings derived from one shared base (copy-on-configure)
	for ci, sc := range rq.Siblings {
		base := apply(tabula.Open(rq.Path), sc.Base)
		var sibs []*tabula.Extractor
		for _, d := range sc.Derive {
			sibs = append(sibs, apply(base, d)) // all derived before any is used
		}
		check := func(who string, e *tabula.Extractor, calls []builderCall) {
			got, _, err := e.Text()
			want, _, werr := apply(tabula.Open(rq.Path), calls).Text()
			rp.Counters["sibling_ops_compared"]++
			if (err == nil) != (werr == nil) || fw.OneLine(fmt.Sprint(fw.FindTokens(got)), 1<<20) != fw.OneLine(fmt.Sprint(fw.FindTokens(want)), 1<<20) {
				add("sibling-interference", "sibling case %d: %s built by %v returns tokens %v (err %v), a freshly built equal extractor returns %v (err %v)", ci, who, calls, head(fw.FindTokens(got)), err, head(fw.FindTokens(want)), werr)
			}
		}
		for i := len(sibs) - 1; i >= 0; i-- { // use them in reverse creation order
			check(fmt.Sprintf("sibling %d", i), sibs[i], append(append([]builderCall{}, sc.Base...), sc.Derive[i]...))
		}
		check("base", base, sc.Base)
	}

	// ---- history: immutability of bases + descriptor discipline
	type slot struct {
		e     *tabula.Extractor
		calls []builderCall // how to rebuild an equal fresh extractor
		open  bool          // may legitimately hold a descriptor (non-terminal op ran since the last terminal op / Close)
	}
	slots := []*slot{{e: tabula.Open(rq.Path)}}
	expectOpen := func() int {
		n := 0
		for _, s := range slots {
			if s.open {
				n++
			}
		}
		return n
	}
	runOp := func(e *tabula.Extractor, op string) (string, error) {
		switch op {
		case "PageCount":
			n, err := e.PageCount()
			return fmt.Sprint(n), err
		case "IsMultiColumn":
			b, err := e.IsMultiColumn()
			return fmt.Sprint(b), err
		case "IsCharacterLevel":
			b, err := e.IsCharacterLevel()
			return fmt.Sprint(b), err
		case "Text":
			s, _, err := e.Text()
			return s, err
		case "Fragments":
			fr, _, err := e.Fragments()
			var sb strings.Builder
			for _, f := range fr {
				fmt.Fprintf(&sb, "%v\n", keyOf(f))
			}
			return sb.String(), err
		case "Document":
			d, _, err := e.Document()
			if err != nil || d == nil {
				return "", err
			}
			var sb strings.Builder
			for _, p := range d.Pages {
				fmt.Fprintf(&sb, "%d:%d;", p.Number, len(p.RawText))
			}
			return sb.String(), nil
		case "Chunks":
			cc, _, err := e.Chunks()
			if err != nil || cc == nil {
				return "", err
			}
			s, err := cc.ToJSONL()
			return s, err
		}
		return "", nil
	}
	for hi, st := range rq.History {
		s := slots[st.Target]
		where := fmt.Sprintf("history step %d (%s on extractor %d built by %v)", hi, st.Op, st.Target, s.calls)
		switch st.Op {
		case "derive":
			ns := &slot{e: apply(s.e, st.Calls), calls: append(append([]builderCall{}, s.calls...), st.Calls...)}
			slots = append(slots, ns)
		case "Close":
			func() {
				defer func() {
					if r := recover(); r != nil {
						add("close-panic", "%s: Close() panicked: %v", where, r)
					}
				}()
				s.e.Close()
				s.e.Close() // closing again must be harmless
			}()
			s.open = false
		default:
			got, err := runOp(s.e, st.Op)
			// reference: a freshly built equal extractor in a clean state
			fresh := apply(tabula.Open(rq.Path), s.calls)
			want, werr := runOp(fresh, st.Op)
			fresh.Close()
			rp.Counters["history_ops_compared"]++
			if (err == nil) != (werr == nil) {
				add("base-changed", "%s: returned err=%v, a freshly built equal extractor returns err=%v", where, err, werr)
			} else if err == nil && got != want {
				add("base-changed", "%s: result differs from a freshly built equal extractor (%d vs %d bytes)", where, len(got), len(want))
			}
			switch st.Op {
			case "PageCount", "IsMultiColumn", "IsCharacterLevel":
				// non-terminal: the reader stays with the extractor until Close or a
				// terminal operation — also when the operation itself failed after the
				// file had been opened (an unreadable first page)
				if err == nil || len(rq.BadPages) > 0 {
					s.open = true
				}
			default:
				s.open = false // terminal operation: no handle may remain
			}
		}
		if l := fdsOf(dir); len(l) > expectOpen() {
			add("fd-leak", "%s: %d descriptor(s) open, at most %d extractor(s) may hold one: %v", where, len(l), expectOpen(), l)
		}
		rp.Counters["fd_snapshots"]++
	}
	for _, s := range slots {
		s.e.Close()
		s.e.Close()
	}
	if l := fdsOf(dir); len(l) != 0 {
		add("fd-leak", "after closing every extractor of the history %d descriptor(s) remain: %v", len(l), l)
	}

	// ---- failing opens release their descriptors
	for _, bf := range rq.BadFiles {
		for _, op := range []string{"Text", "Document", "Chunks", "PageCount"} {
			e := tabula.Open(bf)
			_, err := runOp(e, op)
			if op == "PageCount" {
				e.Close()
			}
			rp.Counters["failing_opens"]++
			_ = err
			if l := fdsOf(dir); len(l) != 0 {
				add("fd-leak-on-failure", "%s() on %s (err=%v) left %d descriptor(s) open: %v", op, filepath.Base(bf), err, len(l), l)
				// do not cascade
				return rp
			}
		}
	}
	return rp
}

// exclusionCalls returns the header/footer exclusion calls of a spelling.
func exclusionCalls(calls []builderCall) []builderCall {
	var out []builderCall
	for _, c := range calls {
		switch c.Kind {
		case "ExcludeHeaders", "ExcludeFooters", "ExcludeHF":
			out = append(out, c)
		}
	}
	return out
}

// hasTextMode: the spelling selects another text assembly mode, whose output
// is compared by token composition only (the baselines use the default mode).
func hasTextMode(calls []builderCall) bool {
	for _, c := range calls {
		if c.Kind != "Pages" && c.Kind != "PageRange" {
			return true
		}
	}
	return false
}

func head(s []string) []string {
	if len(s) > 6 {
		return append(s[:6:6], "…")
	}
	return s
}

func init() {
	fw.RegisterWorker("c10", func(b []byte) []byte {
		var rq request
		json.Unmarshal(b, &rq)
		rp := work(rq)
		out, _ := json.Marshal(rp)
		return out
	})
}

// ---- parent: case generation -------------------------------------------------------

func uniqSorted(xs []int) []int {
	m := map[int]bool{}
	var out []int
	for _, x := range xs {
		if !m[x] {
			m[x] = true
			out = append(out, x)
		}
	}
	sort.Ints(out)
	return out
}

func genSpellings(r *rand.Rand, n int) []spelling {
	var sps []spelling
	// no selection = all pages
	all := make([]int, n)
	for i := range all {
		all[i] = i + 1
	}
	sps = append(sps, spelling{Calls: nil, Want: all, Note: "all"}, spelling{Calls: []builderCall{{Kind: "Pages"}}, Want: all, Note: "Pages()"})
	for k := 0; k < 5; k++ {
		// a random multiset, spelled in several ways
		var set []int
		for j := 1 + r.Intn(n+2); j > 0; j-- {
			set = append(set, 1+r.Intn(n))
		}
		want := uniqSorted(set)
		sps = append(sps, spelling{Calls: []builderCall{{Kind: "Pages", Args: set}}, Want: want, Note: "multiset"})
		// chained calls, one page each, shuffled
		var chain []builderCall
		for _, p := range set {
			chain = append(chain, builderCall{Kind: "Pages", Args: []int{p}})
		}
		r.Shuffle(len(chain), func(i, j int) { chain[i], chain[j] = chain[j], chain[i] })
		if r.Intn(2) == 0 {
			chain = append(chain, builderCall{Kind: []string{"ByColumn", "JoinParagraphs", "ExcludeHF"}[r.Intn(3)]})
			// text modes change Text() separators/heuristics; only token composition is asserted, which holds for all
		}
		sps = append(sps, spelling{Calls: chain, Want: want, Note: "chained"})
		// range
		a, b := 1+r.Intn(n), 1+r.Intn(n)
		if a > b {
			a, b = b, a
		}
		var rg []int
		for p := a; p <= b; p++ {
			rg = append(rg, p)
		}
		sps = append(sps, spelling{Calls: []builderCall{{Kind: "PageRange", Args: []int{a, b}}}, Want: rg, Note: "range"})
		// range + extra pages + reversed range (adds nothing)
		extra := 1 + r.Intn(n)
		calls := []builderCall{{Kind: "PageRange", Args: []int{a, b}}, {Kind: "Pages", Args: []int{extra}}}
		wantX := uniqSorted(append(append([]int{}, rg...), extra))
		if b > a {
			calls = append(calls, builderCall{Kind: "PageRange", Args: []int{b, a}})
		}
		sps = append(sps, spelling{Calls: calls, Want: wantX, Note: "range+pages+reversed"})
	}
	// overlapping ranges, a page followed by a range that contains it, an option between two ranges
	for k := 0; k < 3 && n >= 2; k++ {
		a := 1 + r.Intn(n-1)
		b := a + 1 + r.Intn(n-a)
		c := a + r.Intn(b-a+1) // inside [a,b]
		d := c + r.Intn(n-c+1)
		var want []int
		for p := a; p <= max(b, d); p++ {
			want = append(want, p)
		}
		calls := []builderCall{{Kind: "PageRange", Args: []int{a, b}}}
		if k == 1 {
			calls = append(calls, builderCall{Kind: []string{"ExcludeHeaders", "JoinParagraphs"}[r.Intn(2)]})
		}
		calls = append(calls, builderCall{Kind: "PageRange", Args: []int{c, d}})
		if k == 2 {
			calls = append([]builderCall{{Kind: "Pages", Args: []int{c}}}, calls...)
		}
		sps = append(sps, spelling{Calls: calls, Want: want, Note: "overlapping-ranges"})
	}
	// out of range
	for _, bad := range []int{0, -1, n + 1, n + 100} {
		sps = append(sps, spelling{Calls: []builderCall{{Kind: "Pages", Args: []int{1, bad}}}, Want: nil, Note: "out-of-range"})
	}
	sps = append(sps, spelling{Calls: []builderCall{{Kind: "PageRange", Args: []int{n, n + 2}}}, Want: nil, Note: "range-out"})
	return sps
}

func b2i(b bool) int {
	if b {
		return 1
	}
	return 0
}

func genHistory(r *rand.Rand, n int) []histStep {
	var hs []histStep
	nslots := 1
	ops := []string{"PageCount", "IsMultiColumn", "IsCharacterLevel", "Text", "Fragments", "Document", "Chunks", "Close", "derive", "derive", "derive"}
	for k := 3 + r.Intn(6); k > 0; k-- {
		st := histStep{Target: r.Intn(nslots), Op: ops[r.Intn(len(ops))]}
		if st.Op == "derive" {
			switch r.Intn(4) {
			case 0:
				st.Calls = []builderCall{{Kind: "Pages", Args: []int{1 + r.Intn(n)}}}
			case 1:
				a := 1 + r.Intn(n)
				st.Calls = []builderCall{{Kind: "PageRange", Args: []int{a, a + r.Intn(n-a+1)}}}
			case 2:
				st.Calls = []builderCall{{Kind: []string{"ByColumn", "JoinParagraphs", "PreserveLayout", "ExcludeHeaders", "ExcludeFooters", "ExcludeHF"}[r.Intn(6)]}}
			default:
				st.Calls = []builderCall{{Kind: "Pages", Args: []int{1 + r.Intn(n)}}, {Kind: "JoinParagraphs"}}
			}
			nslots++
			if r.Intn(5) == 0 {
				// a selection that names a page the document does not have: the probes work
				// (they open the reader), the terminal operation fails — and must still let go
				st.Calls = []builderCall{{Kind: "Pages", Args: []int{1 + r.Intn(n), n + 1 + r.Intn(3)}}}
				hs = append(hs, st)
				slot := nslots - 1
				hs = append(hs, histStep{Target: slot, Op: []string{"PageCount", "IsMultiColumn", "IsCharacterLevel"}[r.Intn(3)]},
					histStep{Target: slot, Op: []string{"Text", "Chunks", "Document", "Fragments"}[r.Intn(4)]})
				continue
			}
		}
		hs = append(hs, st)
	}
	// always end by using the base again
	hs = append(hs, histStep{Target: 0, Op: []string{"Text", "Fragments", "Chunks"}[r.Intn(3)]})
	return hs
}

// Run is the C10 check.
func Run(c *fw.Ctx) {
	c.Rule("case = generated PDF (1-8 pages, per-page unique tokens, random physical layout) x ~30 selection spellings (multisets, chains, ranges, reversed ranges, out-of-range) x an operation history of length 4-9 over shared base and derived extractors; " +
		"non-trivial iff the document has >= 2 pages (selections then differ from 'all pages') or the history has >= 3 steps; distinct by hash of document tokens + spellings + history")
	c.Assume("each case runs alone in a single-goroutine worker process, so /proc/self/fd reflects only the library's descriptors",
		"Text() under a selection is compared by token order and white-space-free runes; the separator between pages is not pinned")
	dir := filepath.Join(c.Work, "c10")
	os.MkdirAll(dir, 0o755)
	// files that cannot be opened, for every format
	var bad []string
	for _, ext := range []string{"pdf", "docx", "odt", "xlsx", "pptx", "epub"} {
		p := filepath.Join(dir, "broken."+ext)
		os.WriteFile(p, []byte("PK\x03\x04 this is neither a zip archive nor a pdf file"), 0o644)
		bad = append(bad, p)
		p2 := filepath.Join(dir, "missing."+ext)
		bad = append(bad, p2)
	}
	for i, f := range ExtraBadFiles {
		data, ext := f(c.Rand("bad", i))
		p := filepath.Join(dir, fmt.Sprintf("bad%d.%s", i, ext))
		os.WriteFile(p, data, 0o644)
		bad = append(bad, p)
	}
	// I/O fault injection on one document per format
	if c.Only == "" || strings.HasPrefix(c.Only, "io:") {
		var iodocs []string
		r := c.Rand("iodocs")
		g := pdfw.GenDoc(r, pdfw.DocOpts{MinPages: 2, MaxPages: 3, MaxLines: 5, MaxFonts: 2, TreeDepth: 2, Inherit: "mixed", NoEmptyPages: true})
		for k, lay := range []pdfw.Layout{pdfw.BaselineLayout(), pdfw.RandomLayout(r, 1)} {
			if k == 1 {
				lay.XRef = []string{"stream"}
				lay.ObjStm = "some"
				lay.LenMode = "mixed"
			}
			p := filepath.Join(dir, fmt.Sprintf("io%d.pdf", k))
			os.WriteFile(p, pdfw.Build(r.Int63(), lay, []*pdfw.Doc{g.Doc}).Bytes, 0o644)
			iodocs = append(iodocs, p)
		}
		for i, f := range ExtraGoodFiles {
			data, ext := f(c.Rand("iogood", i))
			p := filepath.Join(dir, fmt.Sprintf("io-good%d.%s", i, ext))
			os.WriteFile(p, data, 0o644)
			iodocs = append(iodocs, p)
		}
		ioFaults(c, dir, iodocs)
	}
	if c.Only == "" || strings.HasPrefix(c.Only, "hdoc:") {
		c.Parallel(c.N(60, 600), func(i int) { runHeadingDoc(c, dir, i) })
	}
	pool := fw.NewPool(c, "c10", 16, 60*time.Second, 0)
	defer pool.Close()
	n := c.N(120, 6000)
	c.Parallel(n, func(i int) {
		id := fmt.Sprintf("case:%d", i)
		if !c.Want(id) {
			return
		}
		r := c.Rand("case", i)
		g := pdfw.GenDoc(r, pdfw.DocOpts{MinPages: 1, MaxPages: 8, MaxLines: 6, MaxFonts: 2, TreeDepth: 1 + r.Intn(3), Inherit: "mixed", NoEmptyPages: true, FontKinds: []string{"t1-winansi", "t1-std", "tt-winansi-tounicode"}})
		lay := pdfw.RandomLayout(r, 1)
		if i%6 == 5 {
			// pages sharing one inherited Resources dictionary while forms bring their
			// own resources that give the same names another meaning: what one page's
			// extraction does to the shared dictionaries shows on the pages after it
			g = pdfw.GenDoc(r, pdfw.DocOpts{MinPages: 3, MaxPages: 6, MaxLines: 6, MaxFonts: 3, TreeDepth: 2, Inherit: []string{"root", "parent"}[i/6%2], NoEmptyPages: true, FontKinds: []string{"t1-winansi", "t1-macroman", "tt-winansi-tounicode"}, ExactKinds: true})
			lay.Forms, lay.FontNameRot, lay.ResIndirect = true, true, i/12%2 == 0
			c.Seen("doc", "shared-resources+renaming-forms")
		}
		damage := i%4 == 3 // one page's content stream is made undecodable
		if damage {
			// the filter entry is a name, or an array (a chain of two stages)
			lay.Filter, lay.Forms, lay.Split = []string{"Fl", "AHxFl", "A85Fl"}[i/4%3], false, 1
		}
		b := pdfw.Build(r.Int63(), lay, []*pdfw.Doc{g.Doc})
		path := filepath.Join(dir, fmt.Sprintf("c%05d.pdf", i))
		_, toks := g.ExpectedPageText()
		np := len(toks)
		var badPages []int
		if damage && np >= 2 {
			leaves := g.Doc.Leaves()
			bp := r.Intn(np) // 0-based leaf index
			if i/4%2 == 0 {
				bp = 0 // the page the probes look at
			}
			if rg, ok := b.StreamRanges[fmt.Sprintf("page:%d:content:0", leaves[bp].Node.ID)]; ok && rg[1]-rg[0] > 8 {
				for k := rg[0]; k < rg[1]; k++ {
					b.Bytes[k] = 0 // not a zlib stream any more; length and offsets unchanged
				}
				// chains: the outer (ASCII) stage still decodes, to something that is no
				// zlib stream — the failure is in the second stage
				switch lay.Filter {
				case "AHxFl":
					for k := rg[0]; k < rg[1]-1; k++ {
						b.Bytes[k] = '4'
					}
					b.Bytes[rg[1]-1] = '>'
				case "A85Fl":
					for k := rg[0]; k < rg[1]-2; k++ {
						b.Bytes[k] = '!'
					}
					b.Bytes[rg[1]-2], b.Bytes[rg[1]-1] = '~', '>'
				}
				badPages = []int{bp + 1}
				c.Seen("fault", "page-content-undecodable")
			}
		}
		os.WriteFile(path, b.Bytes, 0o644)
		defer os.Remove(path)
		rq := request{Path: path, NPages: np, PageToks: toks, Spellings: genSpellings(r, np), History: genHistory(r, np), BadPages: badPages}
		if len(badPages) > 0 {
			// a probe that meets the unreadable page, then terminal operations on the same
			// extractor (compared with freshly built equal extractors like every step)
			rq.History = append([]histStep{{Target: 0, Op: "IsMultiColumn"}, {Target: 0, Op: "Text"}, {Target: 0, Op: "IsCharacterLevel"}, {Target: 0, Op: "Chunks"}}, rq.History...)
		}
		if len(badPages) > 0 {
			// every way of asking for the readable pages only, with and without header/footer exclusion
			var good []int
			for p := 1; p <= np; p++ {
				if p != badPages[0] {
					good = append(good, p)
				}
			}
			for _, opt := range []string{"", "ExcludeHF", "ExcludeHeaders", "ExcludeFooters"} {
				calls := []builderCall{{Kind: "Pages", Args: good}}
				if opt != "" {
					calls = append(calls, builderCall{Kind: opt})
				}
				rq.Spellings = append(rq.Spellings, spelling{Calls: calls, Want: good, Note: "all-readable-pages " + opt})
				if len(good) >= 2 {
					sub := good[len(good)/2:]
					c2 := append([]builderCall{}, calls...)
					c2[0] = builderCall{Kind: "Pages", Args: sub}
					rq.Spellings = append(rq.Spellings, spelling{Calls: c2, Want: sub, Note: "readable-pages-after-the-gap " + opt})
				}
			}
		}
		for k := 0; k < 3; k++ {
			var sc siblingCase
			for j := r.Intn(6); j > 0; j-- { // a chain of single-page calls leaves spare slice capacity
				sc.Base = append(sc.Base, builderCall{Kind: "Pages", Args: []int{1 + r.Intn(np)}})
			}
			if r.Intn(2) == 0 { // one call with repeated and unsorted pages
				var args []int
				for j := 2 + r.Intn(4); j > 0; j-- {
					args = append(args, 1+r.Intn(np))
				}
				args = append(args, args[0])
				sc.Base = append(sc.Base, builderCall{Kind: "Pages", Args: args})
			}
			for j := 2 + r.Intn(3); j > 0; j-- {
				switch r.Intn(5) {
				case 0:
					a := 1 + r.Intn(np)
					sc.Derive = append(sc.Derive, []builderCall{{Kind: "PageRange", Args: []int{a, a}}})
				case 1, 2: // derived through a builder that does not touch the page list
					sc.Derive = append(sc.Derive, []builderCall{{Kind: []string{"ByColumn", "JoinParagraphs", "ExcludeHeaders", "ExcludeFooters", "ExcludeHF"}[r.Intn(5)]}})
				default:
					sc.Derive = append(sc.Derive, []builderCall{{Kind: "Pages", Args: []int{1 + r.Intn(np)}}})
				}
			}
			rq.Siblings = append(rq.Siblings, sc)
		}
		if i%10 == 0 {
			rq.BadFiles = bad
		}
		jb, _ := json.Marshal(rq)
		c.Case(fmt.Sprintf("%v|%v|%v", toks, rq.Spellings, rq.History), np >= 2 || len(rq.History) >= 3)
		c.Seen("pages", fmt.Sprint(np))
		for _, st := range rq.History {
			c.Seen("history_op", st.Op)
		}
		for _, sp := range rq.Spellings {
			c.Seen("spelling", sp.Note)
		}
		if i < 3 {
			c.Sample(map[string]any{"id": id, "pages": np, "spellings": rq.Spellings[2:6], "history": rq.History})
		}
		res := pool.Do(jb)
		if res.Kind != "ok" {
			c.Fail("", "worker-"+res.Kind, id, fmt.Sprintf("worker %s: %s at %s", res.Kind, res.Msg, res.Site), map[string]any{"stack": res.Stack})
			return
		}
		var rp response
		json.Unmarshal(res.Resp, &rp)
		for k, v := range rp.Counters {
			c.Count(k, v)
		}
		for _, f := range rp.Fails {
			c.Fail("", f.Class, id, f.What, map[string]any{"pages": np, "layout": fmt.Sprintf("%+v", lay)})
		}
	})
}

// ExtraGoodFiles: valid documents of the other formats (for I/O fault injection): func(r) -> (bytes, ext).
var ExtraGoodFiles []func(r *rand.Rand) ([]byte, string)

// ExtraBadFiles lets writer packages contribute corrupt-but-plausible documents
// (e.g. a DOCX whose document.xml member is damaged): func(r) -> (bytes, ext).
var ExtraBadFiles []func(r *rand.Rand) ([]byte, string)
