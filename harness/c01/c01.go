// Package c01: PDF text survives every physical file layout.
//
// Oracle: the logical document handed to the independent writer (gen/pdfw).
// Observed: tabula.Open(f).PageCount / Pages(i).Fragments / Text and
// reader.Open(f).GetPage(i) + ExtractTextFragments / MediaBox / Rotate / Resources.
package c01

import (
	"fmt"
	"os"
	"path/filepath"
	"reflect"
	"sort"
	"strings"
	"unicode"

	"github.com/tsawler/tabula"
	"github.com/tsawler/tabula/core"
	"github.com/tsawler/tabula/reader"

	"verifharness/fw"
	"verifharness/gen/pdfw"
)

func stripWS(s string) string {
	var b strings.Builder
	for _, r := range s {
		if !unicode.IsSpace(r) && r != 0xA0 {
			b.WriteRune(r)
		}
	}
	return b.String()
}

// Case is everything that defines one generated file.
type Case struct {
	ID    string
	Lay   pdfw.Layout
	Opts  pdfw.DocOpts
	Revs  int
	Gens  []*pdfw.GenResult
	Edits []string
	Built *pdfw.Built
}

func layoutDims(l pdfw.Layout, o pdfw.DocOpts, revs int) map[string]string {
	eol := map[string]string{"\n": "LF", "\r\n": "CRLF", "\r": "CR"}[l.EOL]
	big := "none"
	switch {
	case l.BigContent > 8000:
		big = ">8K"
	case l.BigContent > 4000:
		big = ">4K"
	}
	return map[string]string{
		"eol": eol, "tight": fmt.Sprint(l.Tight), "xref": strings.Join(l.XRef, "+"), "objstm": l.ObjStm, "len": l.LenMode,
		"filter": l.Filter, "split": fmt.Sprint(l.Split), "splitnows": fmt.Sprint(l.SplitNoWS && l.Split > 1), "big": big,
		"numbering": l.Numbering, "shuffle": fmt.Sprint(l.Shuffle), "resind": fmt.Sprint(l.ResIndirect),
		"depth": fmt.Sprint(o.TreeDepth), "inherit": o.Inherit, "override": fmt.Sprint(o.Override), "revs": fmt.Sprint(revs),
		"xrefpred": fmt.Sprint(l.XRefPredictor), "extends": fmt.Sprint(l.ObjStmExtends && l.ObjStm != "none"),
		"comments": fmt.Sprint(l.Comments), "quotes": fmt.Sprint(l.Quotes), "tjkern": fmt.Sprint(l.TJKern), "forms": fmt.Sprint(l.Forms), "boxind": fmt.Sprint(l.BoxIndirect),
		"fontrot": fmt.Sprint(l.FontNameRot), "fontsdirect": fmt.Sprint(l.FontsDirect), "inlineimg": fmt.Sprint(l.InlineImages), "tmscale": fmt.Sprint(l.TmScale), "ghostfont": fmt.Sprint(l.GhostFont), "ghostres": fmt.Sprint(l.GhostResCategory),
	}
}

func baselineDims() map[string]string {
	return layoutDims(pdfw.BaselineLayout(), pdfw.DocOpts{TreeDepth: 1, Inherit: "leaf"}, 1)
}

// makeCase builds the case with the given id.
func makeCase(c *fw.Ctx, id string) *Case {
	var kind string
	var idx int
	fmt.Sscanf(strings.Replace(id, ":", " ", 1), "%s %d", &kind, &idx)
	r := c.Rand("case", id)
	cs := &Case{ID: id, Revs: 1}
	cs.Opts = pdfw.DocOpts{MinPages: 1, MaxPages: 6, MaxLines: 8, MaxFonts: 4, TreeDepth: 1, Inherit: "leaf"}
	cs.Lay = pdfw.BaselineLayout()
	switch kind {
	case "base":
	case "dim":
		// vary exactly one dimension away from the baseline
		full := pdfw.RandomLayout(r, 1)
		dims := []string{"eol", "tight", "xref", "objstm", "len", "filter", "split", "splitnows", "big", "numbering", "shuffle", "resind", "depth", "inherit", "override", "revs", "contarr", "xrefpred", "extends", "comments", "quotes", "tjkern", "forms", "boxind", "fontrot", "fontsdirect", "inlineimg", "formrot", "tmscale", "ghostfont", "ghostres"}
		switch d := dims[idx%len(dims)]; d {
		case "eol":
			cs.Lay.EOL = []string{"\r\n", "\r"}[r.Intn(2)]
		case "tight":
			cs.Lay.Tight = true
		case "xref":
			cs.Lay.XRef = []string{"stream"}
		case "objstm":
			cs.Lay.XRef = []string{"stream"}
			cs.Lay.ObjStm = []string{"some", "all"}[r.Intn(2)]
		case "len":
			cs.Lay.LenMode = []string{"ind-before", "ind-after", "ind-objstm", "mixed"}[r.Intn(4)]
			if cs.Lay.LenMode == "ind-objstm" {
				cs.Lay.XRef = []string{"stream"}
				cs.Lay.ObjStm = "some"
			}
		case "filter":
			for full.Filter == "none" {
				full = pdfw.RandomLayout(r, 1)
			}
			cs.Lay.Filter = full.Filter
		case "split":
			cs.Lay.Split = 2 + r.Intn(3)
		case "splitnows":
			cs.Lay.Split = 2 + r.Intn(3)
			cs.Lay.SplitNoWS = true
		case "big":
			cs.Lay.BigContent = []int{4300, 8500}[r.Intn(2)]
		case "numbering":
			cs.Lay.Numbering = []string{"sparse", "permuted"}[r.Intn(2)]
		case "shuffle":
			cs.Lay.Shuffle = true
		case "resind":
			cs.Lay.ResIndirect = true
		case "depth":
			cs.Opts.TreeDepth = 2 + r.Intn(3)
		case "inherit":
			cs.Opts.TreeDepth = 3
			cs.Opts.Inherit = []string{"parent", "grandparent", "root", "mixed"}[r.Intn(4)]
		case "override":
			cs.Opts.TreeDepth = 3
			cs.Opts.Inherit = "mixed"
			cs.Opts.Override = true
		case "revs":
			cs.Revs = 2 + r.Intn(3)
			cs.Lay.XRef = nil
			for i := 0; i < cs.Revs; i++ {
				cs.Lay.XRef = append(cs.Lay.XRef, "table")
			}
		case "contarr":
			cs.Lay.Split = 2
			cs.Lay.ContentsArrayIndirect = true
		case "xrefpred":
			cs.Lay.XRef = []string{"stream"}
			cs.Lay.XRefPredictor = true
		case "boxind":
			cs.Lay.BoxIndirect = true
		case "comments":
			cs.Lay.Comments = true
		case "quotes":
			cs.Lay.Quotes = true
		case "tjkern":
			cs.Lay.TJKern = true
		case "forms":
			cs.Lay.Forms = true
			cs.Opts.MaxLines = 8
		case "fontrot":
			cs.Lay.FontNameRot = true
			cs.Opts.TreeDepth = 2
			cs.Opts.Inherit = "mixed"
		case "formrot":
			cs.Lay.FontNameRot = true
			cs.Lay.Forms = true
			cs.Opts.Inherit = []string{"leaf", "parent", "root"}[r.Intn(3)]
			cs.Opts.TreeDepth = 2
		case "fontsdirect":
			cs.Lay.FontsDirect = true
		case "inlineimg":
			cs.Lay.InlineImages = true
		case "tmscale":
			cs.Lay.TmScale = true
		case "ghostfont":
			cs.Lay.GhostFont = true
			cs.Opts.MaxFonts = 4
		case "ghostres":
			cs.Lay.GhostResCategory = true
		case "extends":
			cs.Lay.XRef = []string{"stream"}
			cs.Lay.ObjStm = "all"
			cs.Lay.ObjStmExtends = true
		}
	default: // rnd
		cs.Revs = 1 + []int{0, 0, 1, 2, 3}[r.Intn(5)]
		cs.Lay = pdfw.RandomLayout(r, cs.Revs)
		cs.Opts.TreeDepth = 1 + r.Intn(4)
		cs.Opts.Inherit = []string{"leaf", "parent", "grandparent", "root", "mixed"}[r.Intn(5)]
		cs.Opts.Override = r.Intn(3) == 0
	}
	return cs
}

// build generates documents and the file (neutral names features to neutralise).
func (cs *Case) build(c *fw.Ctx, neutral map[string]bool) {
	lay := cs.Lay
	opts := cs.Opts
	if neutral["eol=CR"] && lay.EOL == "\r" {
		lay.EOL = "\n"
	}
	if neutral["splitnows"] {
		lay.SplitNoWS = false
	}
	if neutral["len-indirect"] {
		lay.LenMode = "direct"
	}
	if neutral["inherit-deep"] {
		if opts.Inherit != "leaf" && opts.Inherit != "parent" {
			opts.Inherit = "parent"
		}
		opts.Override = false
	}
	rd := c.Rand("case", cs.ID, "doc")
	g := pdfw.GenDoc(rd, opts)
	cs.Gens = []*pdfw.GenResult{g}
	cs.Edits = nil
	re := c.Rand("case", cs.ID, "edits")
	for i := 1; i < cs.Revs; i++ {
		ng, done := cs.Gens[len(cs.Gens)-1].Evolve(re)
		cs.Gens = append(cs.Gens, ng)
		cs.Edits = append(cs.Edits, done...)
	}
	var docs []*pdfw.Doc
	for _, g := range cs.Gens {
		docs = append(docs, g.Doc)
	}
	seed := c.Rand("case", cs.ID, "layoutseed").Int63()
	cs.Built = pdfw.Build(seed, lay, docs)
}

type failure struct {
	class string
	what  string
}

// observe runs the real code on the file and compares with the logical document.
func observe(c *fw.Ctx, cs *Case, path string) []failure {
	var fails []failure
	final := cs.Gens[len(cs.Gens)-1]
	texts, tokens := final.ExpectedPageText()
	leaves := final.Doc.Leaves()
	add := func(class, f string, a ...any) { fails = append(fails, failure{class, fmt.Sprintf(f, a...)}) }

	// page count
	pc, err := tabula.Open(path).PageCount()
	if err != nil {
		add("open", "PageCount() error: %v", err)
		return fails
	}
	if pc != len(leaves) {
		add("pagecount", "PageCount() = %d, page leaves written = %d", pc, len(leaves))
		return fails
	}
	c.Count("pages_checked", int64(pc))
	// per page fragments through the facade
	for i := range leaves {
		frs, _, err := tabula.Open(path).Pages(i + 1).Fragments()
		if err != nil {
			add("fragments-error", "Pages(%d).Fragments() error: %v", i+1, err)
			continue
		}
		var sb strings.Builder
		for _, f := range frs {
			sb.WriteString(f.Text)
		}
		got := stripWS(sb.String())
		want := stripWS(texts[i])
		c.Count("runes_compared", int64(len([]rune(want))))
		if got != want {
			add("fragments-text", "page %d: fragment text differs from the text shown.\n want: %s\n got:  %s", i+1, fw.OneLine(want, 300), fw.OneLine(got, 300))
		}
	}
	// reader-level API
	rd, err := reader.Open(path)
	if err != nil {
		add("open", "reader.Open error: %v", err)
		return fails
	}
	defer rd.Close()
	for i, lf := range leaves {
		pg, err := rd.GetPage(i)
		if err != nil {
			add("getpage", "GetPage(%d) error: %v", i, err)
			continue
		}
		frs, err := rd.ExtractTextFragments(pg)
		if err != nil {
			add("fragments-error", "reader: ExtractTextFragments(page %d) error: %v", i+1, err)
		} else {
			var sb strings.Builder
			for _, f := range frs {
				sb.WriteString(f.Text)
			}
			if got, want := stripWS(sb.String()), stripWS(texts[i]); got != want {
				add("fragments-text", "reader: page %d fragment text differs.\n want: %s\n got:  %s", i+1, fw.OneLine(want, 300), fw.OneLine(got, 300))
			}
		}
		mb, err := pg.MediaBox()
		wantMB := lf.EffMediaBox()
		if err != nil {
			add("mediabox", "page %d: MediaBox() error %v, defined by an ancestor as %v", i+1, err, wantMB)
		} else if !reflect.DeepEqual(mb, wantMB[:]) {
			add("mediabox", "page %d: MediaBox() = %v, nearest definition is %v", i+1, mb, wantMB)
		}
		if got, want := pg.Rotate(), lf.EffRotate(); got != want {
			add("rotate", "page %d: Rotate() = %d, nearest definition is %d", i+1, got, want)
		}
		res, err := pg.Resources()
		if err != nil {
			add("resources", "page %d: Resources() error %v (defined at node %d)", i+1, err, lf.ResourcesOwner().ID)
		} else {
			// the font dictionary must be the nearest one: check F1's tag
			own := lf.ResourcesOwner()
			nf := len(final.Doc.Fonts)
			wi := cs.Lay.NameRot(own.ID, nf) // which font this owner's dictionary calls F1
			if own.DecoyFonts && nf > 1 {
				wi = (wi + 1) % nf
			}
			wantTag := final.Doc.Fonts[wi].Tag
			if tag, ok := fontTag(rd, res, "F1"); ok && tag != wantTag {
				add("resources", "page %d: Resources() is not the nearest definition (F1 tag %s, want %s)", i+1, tag, wantTag)
			}
			c.Count("resources_checked", 1)
		}
		c.Count("attrs_checked", 3)
	}
	// whole-document Text(): tokens page by page, in content order
	txt, _, err := tabula.Open(path).Text()
	if err != nil {
		add("text-error", "Text() error: %v", err)
	} else {
		var want []string
		for _, t := range tokens {
			want = append(want, t...)
		}
		got := fw.FindTokens(txt)
		c.Count("tokens_traced", int64(len(want)))
		// Text() runs the layout heuristics (column / reading-order detection), whose
		// ordering *within* a page is not part of this property: content order is
		// asserted on Fragments() above. Here: nothing lost or repeated, and pages
		// in ascending order (every token of page i before every token of page i+1).
		if len(got)+len(want) > 0 {
			pageOf := map[string]int{}
			for pi, ts := range tokens {
				for _, t := range ts {
					pageOf[t] = pi
				}
			}
			gs, ws := append([]string{}, got...), append([]string{}, want...)
			sort.Strings(gs)
			sort.Strings(ws)
			if !reflect.DeepEqual(gs, ws) {
				// A token drawn by two show operators is two fragments; the column
				// heuristics may send them to different places (in-page order is not
				// this property's matter). Conservation is then judged on characters:
				// the non-blank characters of Text() are those of the pages.
				var wantAll strings.Builder
				for _, t := range texts {
					wantAll.WriteString(t)
				}
				if sortedRunes(stripWS(txt)) != sortedRunes(stripWS(wantAll.String())) {
					add("text-tokens", "Text(): tokens lost, repeated or invented: %s", diffTokens(want, got))
				} else {
					c.Count("text_token_split_across_layout_regions_(characters_conserved)", 1)
				}
			} else {
				last := 0
				for _, t := range got {
					if pageOf[t] < last {
						add("text-page-order", "Text(): token %s of page %d appears after text of page %d", t, pageOf[t]+1, last+1)
						break
					}
					last = pageOf[t]
				}
				if reflect.DeepEqual(got, want) {
					c.Count("text_in_exact_content_order", 1)
				} else {
					c.Count("text_reordered_within_page_by_layout_heuristics", 1)
				}
			}
		}
	}
	return fails
}

func sortedRunes(s string) string {
	r := []rune(s)
	sort.Slice(r, func(i, j int) bool { return r[i] < r[j] })
	return string(r)
}

func fontTag(rd *reader.Reader, res core.Dict, name string) (string, bool) {
	fo := res.Get("Font")
	if fo == nil {
		return "", false
	}
	fr, err := rd.Resolve(fo)
	if err != nil {
		return "", false
	}
	fd, ok := fr.(core.Dict)
	if !ok {
		return "", false
	}
	f1, err := rd.Resolve(fd.Get(name))
	if err != nil || f1 == nil {
		return "", false
	}
	d, ok := f1.(core.Dict)
	if !ok {
		return "", false
	}
	if t, ok := d.Get("VerifTag").(core.Name); ok {
		return string(t), true
	}
	return "", false
}

func diffTokens(want, got []string) string {
	ws := map[string]int{}
	for i, t := range want {
		ws[t] = i
	}
	gs := map[string]int{}
	for _, t := range got {
		gs[t]++
	}
	var missing, dup, extra []string
	for _, t := range want {
		switch gs[t] {
		case 0:
			missing = append(missing, t)
		case 1:
		default:
			dup = append(dup, t)
		}
	}
	for _, t := range got {
		if _, ok := ws[t]; !ok {
			extra = append(extra, t)
		}
	}
	if len(missing)+len(dup)+len(extra) > 0 {
		return fmt.Sprintf("missing %v duplicated %v unexpected %v (of %d)", head(missing), head(dup), head(extra), len(want))
	}
	for i := range got {
		if got[i] != want[i] {
			return fmt.Sprintf("order differs at position %d: got %s want %s", i, got[i], want[i])
		}
	}
	return "?"
}

func head(s []string) []string {
	if len(s) > 5 {
		return append(s[:5:5], "…")
	}
	return s
}

// triggers maps a failing case's features to the counterfactual that neutralises them.
var triggers = []struct{ finding, neutral string }{
	{"cr-only-eol", "eol=CR"},
}

func runCase(c *fw.Ctx, id string) {
	cs := makeCase(c, id)
	dims := layoutDims(cs.Lay, cs.Opts, cs.Revs)
	base := baselineDims()
	away := 0
	for k, v := range dims {
		if base[k] != v {
			away++
		}
		c.Seen("dim."+k, v)
	}
	var fails []failure
	path := filepath.Join(c.Work, strings.ReplaceAll(id, ":", "_")+".pdf")
	run := func(neutral map[string]bool) bool {
		cs.build(c, neutral) // a panic here is a harness bug: let it crash loudly
		os.WriteFile(path, cs.Built.Bytes, 0o644)
		fails = nil
		ok := c.Guard("c01", id, map[string]any{"dims": dims, "neutral": neutral, "file": path}, func() {
			fails = observe(c, cs, path)
		})
		return ok
	}
	okRun := run(nil)
	final := cs.Gens
	shown := false
	if len(final) > 0 {
		texts, _ := final[len(final)-1].ExpectedPageText()
		for _, t := range texts {
			if t != "" {
				shown = true
			}
		}
	}
	desc := fmt.Sprintf("%v|%x", dims, fnv(cs.Built.Bytes))
	for _, f := range cs.Built.Features {
		c.Seen("feature", f)
	}
	for _, e := range cs.Edits {
		c.Seen("edit", e)
	}
	c.Case(desc, shown && away >= 2)
	// pair coverage
	keys := make([]string, 0, len(dims))
	for k := range dims {
		keys = append(keys, k)
	}
	sort.Strings(keys)
	for i := 0; i < len(keys); i++ {
		for j := i + 1; j < len(keys); j++ {
			c.Seen("pairs", keys[i]+"="+dims[keys[i]]+"&"+keys[j]+"="+dims[keys[j]])
		}
	}
	c.Sample(map[string]any{"id": id, "dims": dims, "bytes": len(cs.Built.Bytes), "pages": len(final[len(final)-1].Doc.Leaves()), "edits": cs.Edits})
	if !okRun || len(fails) == 0 {
		os.Remove(path)
		return
	}
	first := fails
	// counterfactual attribution to open findings
	neutral := map[string]bool{}
	var attributed []string
	for _, t := range triggers {
		if c.FindingOpen(t.finding) && featurePresent(cs, t.neutral) {
			neutral[t.neutral] = true
			attributed = append(attributed, t.finding)
		}
	}
	if len(attributed) > 0 {
		if run(neutral) && len(fails) == 0 {
			for _, fnd := range attributed {
				c.Fail(fnd, "known", id, first[0].what, nil)
			}
			os.Remove(path)
			return
		}
		if len(fails) == 0 {
			fails = first
		}
	}
	path = c.Artifact(strings.ReplaceAll(id, ":", "_")+".pdf", cs.Built.Bytes)
	for _, f := range fails {
		c.Fail("", f.class+"/"+culprit(dims, base), id, f.what, map[string]any{"dims": dims, "edits": cs.Edits, "file": path, "neutralised": neutral})
	}
}

func featurePresent(cs *Case, n string) bool {
	switch n {
	case "eol=CR":
		return cs.Lay.EOL == "\r"
	}
	return false
}

// culprit names the dimensions away from baseline (for grouping failures).
func culprit(dims, base map[string]string) string {
	var d []string
	for k, v := range dims {
		if base[k] != v {
			d = append(d, k+"="+v)
		}
	}
	sort.Strings(d)
	if len(d) > 3 {
		return fmt.Sprintf("%d-dims", len(d))
	}
	return strings.Join(d, ",")
}

func fnv(b []byte) uint64 {
	h := uint64(14695981039346656037)
	for _, c := range b {
		h ^= uint64(c)
		h *= 1099511628211
	}
	return h
}

// Run is the C01 check.
func Run(c *fw.Ctx) {
	c.Rule("case = (logical document: pages x lines x fonts; layout vector over 18 physical dimensions; revision edits); " +
		"non-trivial iff >= 1 page shows >= 1 string and >= 2 layout dimensions differ from the baseline layout; distinct by hash of layout vector + file bytes")
	c.Assume("gen/pdfw writes well-formed PDF per ISO 32000-1 (no hybrid xref, no encryption, no indirect /Filter, direct /Length on xref streams)",
		"expected Unicode of simple fonts comes from golang.org/x/text charmap tables restricted to codes where WinAnsi/MacRoman agree with cp1252/Mac OS Roman")
	var ids []string
	for i := 0; i < c.N(12, 40); i++ {
		ids = append(ids, fmt.Sprintf("base:%d", i))
	}
	for i := 0; i < c.N(24*4, 24*40); i++ {
		ids = append(ids, fmt.Sprintf("dim:%d", i))
	}
	for i := 0; i < c.N(400, 20000); i++ {
		ids = append(ids, fmt.Sprintf("rnd:%d", i))
	}
	if k := os.Getenv("VERIF_C01_KINDS"); k != "" { // development aid only
		var keep []string
		for _, id := range ids {
			if strings.Contains(k, strings.SplitN(id, ":", 2)[0]) {
				keep = append(keep, id)
			}
		}
		ids = keep
	}
	c.Parallel(len(ids), func(i int) {
		if !c.Want(ids[i]) {
			return
		}
		runCase(c, ids[i])
	})
	c.Extra("layout_value_pairs_covered", c.SeenCount("pairs"))
}
