#!/usr/bin/env bash
# tools/rebenign_part.sh "<props>" [ids...] : like rebenign.sh, but every change is run against
# the listed checks only (for a quick pass after a few checks changed).
props="$1"; shift
ids=("$@"); [ ${#ids[@]} -gt 0 ] || ids=($(ls /verif/benign))
cd "$(dirname "$0")/.."
printf '%s\n' "${ids[@]}" | xargs -P 3 -I{} bash -c "SKIPSUITE=1 tools/benign.sh {} quick $props 2>&1 | grep -E '^(benign|ALARM|.*PATCH-DOES-NOT-APPLY|.*DOES-NOT-BUILD)'"
git -C /repo worktree prune
