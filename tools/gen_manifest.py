#!/usr/bin/env python3
"""Regenerates /verif/MANIFEST.json from the per-property table below.
A property is claimed only when its check is registered in harness/cmd/vcheck/reg_<id>.go."""
import json, os, subprocess

HERE = os.path.dirname(os.path.dirname(os.path.abspath(__file__)))

BASELINE_OFF = ("cd /repo && GOFLAGS=-mod=mod GOPROXY=off GOSUMDB=off GOTOOLCHAIN=local "
                "go test -mod=mod -json -vet=off -count=1 -timeout 25m ./...")

# id -> (category, technique, level text, level_note, design_ref)
P = {
 "C01": ("exploration", "runtime monitoring: reference-model monitor (logical document vs extracted text) over PDFs from an independent writer crossed with a physical-layout catalogue",
         "Every generated PDF is executed through the real reader/extractor and the per-page rune sequence, token order, page count and inherited page attributes are compared with the logical document the independent writer was given; layout dimensions are covered pairwise. Sampling of a very large cross product, so 'held on the files generated', not a proof.",
         "trusts the harness PDF writer (written from ISO 32000-1, no shared code with tabula) and the vendored encoding tables", "5/C01"),
 "C02": ("fault_enumeration", "runtime monitoring: isolated worker processes with panic/fatal-error capture and CPU-time/heap watchdogs over an enumerated structural fault catalogue plus seeded byte mutation",
         "Every single fault of the catalogue is applied at every recorded field position of each base document and run in an isolated child whose panics, fatal runtime errors, CPU time and live heap are monitored; double faults and byte mutations are seed-sampled. Bounded time/memory are fixed CPU/heap budgets.",
         "Go runtime checks are the sanitizer; CPU budget 10 s/case, heap budget 768 MiB; liveness only as bounded progress", "5/C02"),
 "C03": ("exploration", "race detector (go build -race) + byte-equality monitor against fresh-process baselines under histories and concurrent schedules with injected yields",
         "Extractions of distinct documents are run on 2-16 goroutines under the race detector with yield injection at hook points; every output is compared byte for byte with a baseline computed alone in a fresh process, after arbitrary call histories and across processes (map-order randomisation). Schedules are sampled; the in-flight histogram shows overlap actually occurred.",
         "race detector only sees executed accesses; Go has no controlled scheduler", "5/C03"),
 "C04": ("exploration", "runtime monitoring: sequential reference model (revision map) checked at every lookup of recorded lookup histories, unique values per (object, revision)",
         "Files are written from known revision histories with unique values; every GetObject/Resolve answer in ascending/descending/random/cache-clearing lookup sequences is compared with a 20-line sequential model. Exhaustive for n<=2 objects, r<=3 revisions in thorough, sampled beyond.",
         "trusts the harness incremental PDF writer", "5/C04"),
 "C05": ("exploration", "runtime monitoring: round-trip oracle decode(encode(x)) = x with independent reference encoders; error oracle on data no conforming decoder accepts",
         "Independent encoders (PNG/TIFF predictors with per-row filter types, ASCIIHex, ASCII85, zlib) feed core.Stream.Decode over an exhaustive small space (all strings of length <= 3 over a 5-byte alphabet x all tiling geometries) and seed-determined random strings up to 64 KiB x chains up to 3 x dictionary spellings; undecodable damage must yield an error.",
         "trusts stdlib compress/zlib as encoder and the harness predictor/ASCII encoders (written from the spec)", "5/C05"),
 "C06": ("exploration", "runtime monitoring: round-trip oracle parse(serialise(tree)) = tree under spelling policies, differential oracle core.Parser vs contentstream.Parser",
         "Generated object trees and operator programs are serialised under random legal spellings and parsed by the real parsers; results are compared structurally with the generating tree and between the two parsers.",
         "trusts the harness serialiser (ISO 32000-1 7.2-7.3)", "5/C06"),
 "C07": ("exploration", "runtime monitoring: table monitor against vendored reference encodings (exhaustive 256 x encodings), CMap programs rendered from random maps, UTF-16 against stdlib, UTF-8/NFC invariant monitor",
         "All 256 codes of every named encoding are compared with independent reference tables outside a documented don't-care mask; random code->text maps are rendered into ToUnicode CMaps under formatting policies and looked up; every returned string is checked for UTF-8 validity and NFC.",
         "trusts Tcl 8.6 encoding tables + ISO 32000 Annex D transcription; golang.org/x/text/unicode/norm", "5/C07"),
 "C08": ("exploration", "runtime monitoring: differential oracle against an independent interpreter of the PDF imaging model on random operator programs",
         "Random operator programs are run through text.Extractor and compared, at the first show after each positioning step, with a 40-line reference interpreter of ISO 32000 8.4/9.4 (own matrices); font size is checked exactly for similarities and by singular-value bounds otherwise.",
         "trusts the reference interpreter", "5/C08"),
 "C09": ("exploration", "runtime monitoring: conservation / exactly-once monitor over unique tokens through every layout detector and every text rendering",
         "Synthetic pages of uniquely tokenised fragments are pushed through each detector and through the public API as PDFs; the multiset of non-white-space runes and tokens of every output is compared with the input, and each fragment must be in exactly one line/column.",
         "", "5/C09"),
 "C10": ("exploration", "runtime monitoring: algebraic oracle over per-page baselines, /proc/self/fd monitor around every step of operation histories",
         "Multi-page PDFs with per-page tokens; every spelling of a page selection is compared with the composition of single-page baselines; base extractors are compared with fresh ones after derived use; /proc/self/fd is snapshotted around every history step.",
         "", "5/C10"),
 "C11": ("exploration", "runtime monitoring: ground-truth-by-construction oracle (roles and positions known to the generator) + subsequence monitor",
         "Generated multi-page documents whose fragments carry known roles; filtered output must be a subsequence of the unfiltered one, deletions must be marginal and repeated/page-number, body must be untouched, true running headers must vanish.",
         "", "5/C11"),
 "C12": ("exploration", "runtime monitoring: exactly-once/ordering/conservation checker over unique tokens in chunk texts + independent heading-stack model for section paths",
         "Random document models are chunked by both chunkers under all presets and random size configs; token trace decides coverage, duplication, order; metadata (index, id, total, pages, section path) is compared with an independent model.",
         "", "5/C12"),
 "C13": ("exploration", "runtime monitoring: law checker (termination under CPU budget, conservation of non-white-space runes, UTF-8 validity, size bound, overlap-suffix law) over generated texts and size configurations",
         "Seed-determined texts (ASCII, CJK, emoji, combining, long tokens) x units x limits x overlap strategies run through SplitToSize / chunkers in CPU-budgeted isolated workers; laws evaluated on every result.",
         "", "5/C13"),
 "C14": ("exploration", "runtime monitoring: round-trip oracle through standard parsers (encoding/json, encoding/csv, strict RFC 4180 reader) and selection oracle for filters",
         "Adversarial chunk collections are exported in every format/configuration, re-parsed by standard parsers and compared field by field and in order; filters are compared with the in-order sub-list satisfying the predicate.",
         "", "5/C14"),
 "C15": ("exploration", "runtime monitoring: read-back oracle with an independent GFM reader (pipe tables, ATX headings, list items) against the logical document",
         "Logical documents written as DOCX/ODT/XLSX/PPTX/HTML/EPUB and model tables are rendered to Markdown by the real code; an independent GFM reader recovers tables, heading levels and list structure, compared with the source.",
         "", "5/C15"),
 "C16": ("exploration", "runtime monitoring: ordering/conservation monitor over unique tokens against the logical document from independent DOCX/ODT writers",
         "Random interleavings of paragraphs, headings, lists, tables and inline kinds are written as DOCX/ODT packages by independent writers; block order, inline order, heading level, list depth, table grid and header/footer isolation are checked in Text/Markdown/Document.",
         "", "5/C16"),
 "C17": ("exploration", "runtime monitoring: address->value reference map against Sheet.Cell / TSV / Markdown / model positions; exhaustive codec round trip",
         "Generated workbooks with sparse out-of-order cells of every type and merges; every cell is looked up at its address in every output; the A1 codec is enumerated exhaustively in a bounded range.",
         "", "5/C17"),
 "C18": ("exploration", "runtime monitoring: declared-order oracle over unique tokens per part with declared order a random permutation of file-name and archive order",
         "XLSX/PPTX/EPUB packages are generated with the declared order independent of names and ZIP order, nested/renamed/percent-encoded paths and decoys; page j must carry exactly part j's tokens.",
         "", "5/C18"),
 "C19": ("exploration", "runtime monitoring: exactly-once/order token trace + subsequence (monotonicity) monitor across the four exclusion modes + protected-set oracle",
         "Generated DOM trees mixing content and navigation; mode None must return every content token once in order, each stricter mode a subsequence of the weaker one, protected tokens untouched in all modes, through file/reader/string/EPUB entry points.",
         "", "5/C19"),
 "C20": ("exploration", "runtime monitoring: detection/admission matrix oracle (format x extension x case x member order x decoys) and DRM subset enumeration",
         "Valid documents of all seven formats under all extensions and spellings: own extension opens, others are refused; EPUB encryption.xml subsets x algorithms decide ErrDRMProtected vs open.",
         "", "5/C20"),
}

NOT_YET = "check not built yet in this round (design in DESIGN.md section 5); runtime monitoring applies and the check is planned"

def main():
    regs = {f[4:7].upper() for f in os.listdir(os.path.join(HERE, "harness/cmd/vcheck")) if f.startswith("reg_c")}
    ready = set(open(os.path.join(HERE, "tools/ready.txt")).read().split())
    regs &= ready
    hooks_file = os.path.join(HERE, "MANIFEST.hooks")
    commits = []
    if os.path.exists(hooks_file):
        commits = [l.split()[0] for l in open(hooks_file) if l.strip() and not l.startswith("#")]
    checks, na = [], []
    for pid in sorted(P):
        cat, tech, text, note, ref = P[pid]
        if pid in regs:
            checks.append({
                "property_id": pid,
                "quick_cmd": f"./check {pid} quick",
                "thorough_cmd": f"./check {pid} thorough",
                "evidence_file": f"/verif/evidence/{pid}.json",
                "replay_cmd_template": "./check replay {path}",
                "engine": "vcheck",
                "level_claimed": {"category": cat, "text": text, "design_ref": "DESIGN.md §" + ref},
                "level_note": note or "trusts the harness generators and reference models under /verif/harness (independent of tabula's code)",
                "technique": tech,
            })
        else:
            na.append({"property_id": pid, "reason": NOT_YET})
    m = {
        "version": 1,
        "setup_cmd": "./check setup",
        "hooks": {
            "guard": "verif",
            "enable": "go build -tags verif (done by ./check on every invocation against /repo's working tree)",
            "baseline_off_cmd": BASELINE_OFF,
            "source_commits": commits,
            "add_only": True,
        },
        "engines": [{"name": "vcheck", "path": "/verif/harness", "serves_properties": sorted(regs),
                     "kind_free_text": "Go harness: generators + reference models + monitors executing the real tabula code (race detector for C03)"}],
        "checks": checks,
        "notes": "Technique family: runtime monitoring and sanitizers. ./check rebuilds the harness from /repo's working tree on every call. Exit 0 held, 1 VIOLATION, 2 INCONCLUSIVE, 3 harness/build failure. Known findings: /verif/known_findings.json.",
        "not_applicable": na,
    }
    json.dump(m, open(os.path.join(HERE, "MANIFEST.json"), "w"), indent=1)
    print("claimed:", sorted(regs), "not yet:", [x["property_id"] for x in na])

main()
