#!/usr/bin/env bash
# tools/seeded.sh <Cnn> [check-tier] : confirm a sub-agent's seeded change (patch + demonstration)
# in a scratch worktree, run the check against it, and file it under /verif/seeded/<Cnn>/.
set -u
prop="$1"; tier="${2:-quick}"; src="${SEEDSRC:-/tmp/seedwork}/$prop"; name="${3:-$prop}"
export GOFLAGS=-mod=mod GOPROXY=off GOSUMDB=off GOTOOLCHAIN=local
[ -f "$src/patch.diff" ] || { echo "no patch in $src"; exit 3; }
wt="$(mktemp -d /tmp/sd.XXXXXX)"; rmdir "$wt"
git -C /repo worktree add -q --detach "$wt" HEAD || exit 3
cleanup() { git -C /repo worktree remove --force "$wt" >/dev/null 2>&1; rm -rf "$wt" "$wt.out"; }
trap cleanup EXIT
mkdir -p "$wt/seeddemo"; cp -r "$src/demo/." "$wt/seeddemo/"
demo_clean="fail"; (cd "$wt" && go test -vet=off -count=1 ./seeddemo/ >/dev/null 2>&1) && demo_clean="pass"
git -C "$wt" apply "$src/patch.diff" || { echo "PATCH-DOES-NOT-APPLY (HEAD moved?)"; exit 3; }
(cd "$wt" && go build ./...) || { echo "DOES-NOT-BUILD"; exit 3; }
demo_patched="pass"; (cd "$wt" && go test -vet=off -count=1 ./seeddemo/ >/dev/null 2>&1) || demo_patched="fail"
rm -rf "$wt/seeddemo"
suite="green"; (cd "$wt" && go test -vet=off -count=1 ./... 2>&1 | grep -E "^(FAIL|---|panic)" | head -3 | grep -q .) && suite="RED"
export VERIF_OUT="$wt.out"; mkdir -p "$VERIF_OUT"
cp="${CHECKPROP:-$prop}"; out="$(cd /verif && VERIF_REPO="$wt" ./check "$cp" "$tier" 2>&1)"; rc=$?
verdict="MISSED"; [ $rc = 1 ] && verdict="CAUGHT"
echo "seeded $name: demo on clean tree=$demo_clean, demo with patch=$demo_patched, repo suite with patch=$suite, ./check ${CHECKPROP:-$prop} $tier => $verdict (rc=$rc)"
echo "$out" | grep -E "what:" | head -2
mkdir -p "/verif/seeded/$name"; cp "$src/patch.diff" "/verif/seeded/$name/patch.diff"; rm -rf "/verif/seeded/$name/demo"; cp -r "$src/demo" "/verif/seeded/$name/demo"
python3 - "$src/meta.json" "/verif/seeded/$name/meta.json" "$prop" "$demo_clean" "$demo_patched" "$suite" "$verdict" "$tier" "$(git -C /repo log --format=%h -n1)" <<'PY'
import json,sys
src,dst,prop,dc,dp,suite,verdict,tier,head=sys.argv[1:]
try: m=json.load(open(src))
except Exception: m={}
try:
    old=json.load(open(dst))
    if 'lead_note' in old: m['lead_note']=old['lead_note']   # keep the lead's note across re-runs
except Exception: pass
m.update({"property":prop,"confirmed_by_lead":{"repo_head":head,"demo_on_clean_tree":dc,"demo_with_patch":dp,"repo_suite_with_patch":suite,
  "ran":f"tools/seeded.sh {prop} {tier}: scratch worktree of /repo HEAD, git apply patch.diff, go test ./seeddemo/ (both directions), go test ./..., VERIF_REPO=<worktree> ./check {prop} {tier}",
  "check_verdict":verdict}})
json.dump(m,open(dst,'w'),indent=1)
PY
