#!/usr/bin/env bash
# tools/mutant.sh <patch-file> <Cnn> [tier] [--tests]
# Applies a breaking patch to a scratch worktree of /repo HEAD, optionally runs
# the repo's own tests (must stay green for a "test-surviving" mutant), runs
# the check against it and reports whether a VIOLATION was raised.
set -u
patch="$(realpath "$1")"; prop="$2"; tier="${3:-quick}"; tests="${4:-}"
export GOFLAGS=-mod=mod GOPROXY=off GOSUMDB=off GOTOOLCHAIN=local
wt="$(mktemp -d /tmp/mut.XXXXXX)"; rmdir "$wt"
git -C /repo worktree add -q --detach "$wt" HEAD || exit 3
cleanup() { git -C /repo worktree remove --force "$wt" >/dev/null 2>&1; rm -rf "$wt" "$wt.out"; }
trap cleanup EXIT
if ! git -C "$wt" apply "$patch"; then echo "PATCH-DOES-NOT-APPLY $patch"; exit 3; fi
(cd "$wt" && go build ./... ) || { echo "MUTANT-DOES-NOT-BUILD"; exit 3; }
if [ "$tests" = "--tests" ]; then
  if (cd "$wt" && go test -vet=off -count=1 ./... 2>&1 | grep -E "^(FAIL|---)" | head -5 | grep -q .); then echo "REPO-TESTS-FAIL (not test-surviving)"; else echo "repo tests green"; fi
fi
export VERIF_OUT="$wt.out"; mkdir -p "$VERIF_OUT"
out="$(cd /verif && VERIF_REPO="$wt" ./check "$prop" "$tier" 2>&1)"; rc=$?
echo "$out" | grep -E "^(VIOLATION|KNOWN|INCONCLUSIVE|C[0-9][0-9] )|what:" | head -${MUT_LINES:-8}
if [ $rc = 1 ]; then echo "CAUGHT $(basename "$patch") by $prop"; else echo "MISSED $(basename "$patch") by $prop (rc=$rc)"; fi
