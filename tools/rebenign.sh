#!/usr/bin/env bash
# tools/rebenign.sh [tier] [ids...] : regression over the kept property-preserving changes
# (/verif/benign/<id>/patch.diff): each is applied to a scratch worktree of /repo HEAD and EVERY
# check is run against it. Expected: no alarm anywhere. One summary line per change.
tier="${1:-quick}"; shift || true
ids=("$@"); [ ${#ids[@]} -gt 0 ] || ids=($(ls /verif/benign))
cd "$(dirname "$0")/.."
printf '%s\n' "${ids[@]}" | xargs -P 3 -I{} bash -c "SKIPSUITE=1 tools/benign.sh {} $tier 2>&1 | grep -E '^(benign|ALARM|.*PATCH-DOES-NOT-APPLY|.*DOES-NOT-BUILD)'"
git -C /repo worktree prune
