#!/usr/bin/env python3
"""tools/seed_prompts.py <round-no> <outdir> : write one prompt per property for a round of
independently seeded breaking changes (fresh sub-agent, own worktree /tmp/seed<round>-Cnn,
only the property text + the summaries of changes already taken). Flavours rotate per round."""
import json, sys, os, glob
rnd = int(sys.argv[1]); out = sys.argv[2]
FLAV = [
 "it must need a fault at a particular point of the input (a missing, truncated or undecodable member, object or stream; a dangling reference; a part that fails to parse) whose error return is then swallowed or mis-propagated inside the library — the failure path is what breaks. (Errors of the environment such as a failing disk read or a full output device are out of scope.)",
 "it must need two cooperating code sites that each look fine alone (a producer and a consumer that disagree on a unit, an index base, an ordering or an ownership rule).",
 "it must need an unusual-but-valid input feature the existing tests never use (look at the governing specification for optional features, alternative spellings, defaults).",
 "it must need a particular interleaving, call history or reuse of one object across several calls/documents (state that leaks between calls).",
]
props = [json.loads(l) for l in open('/verif/properties.jsonl')]
os.makedirs(out, exist_ok=True)
for i, p in enumerate(props):
    pid = p['id']; wt = f"/tmp/seed{rnd}-{pid}"; od = f"{out}/{pid}"
    os.makedirs(od, exist_ok=True)
    taken = []
    for d in sorted(glob.glob(f"/verif/seeded/{pid}*")):
        try: taken.append(json.load(open(d + "/meta.json"))["summary"])
        except Exception: pass
    flav = FLAV[(i + rnd + 1) % 4]
    files = ", ".join(p['anchors']['files'])
    t = f"""You are a software engineer testing how good a hidden verification suite is. You work ONLY inside the git worktree {wt} (a checkout of the Go library tsawler/tabula: pure-Go text extraction from PDF, DOCX, ODT, XLSX, PPTX, EPUB, HTML). Do not look at or touch /verif or /repo or any other directory; you have no knowledge of what the verification suite checks beyond the property text below.

PROPERTY {pid}: {p['title']}
Statement: {p['statement']}
Scope: {p['quantifier']['text']}
Relevant source files: {files}

IDEAS ALREADY TAKEN by other engineers (choose a clearly different mechanism and preferably different source files or functions):
""" + "\n".join("  - " + s for s in taken) + f"""

REQUIRED FLAVOUR for your change: {flav}

TASK: produce ONE realistic source change (a plausible bug a maintainer could introduce during a refactor, optimisation or feature addition — not sabotage that any use would expose at once) to the library in {wt} that BREAKS this property, while
  (a) the module still compiles (go build ./...), and
  (b) the library's existing test suite still passes, unedited:  cd {wt} && export GOFLAGS=-mod=mod GOPROXY=off GOSUMDB=off GOTOOLCHAIN=local && go test -vet=off -count=1 ./...   (no network is available; do not add dependencies; do not edit or delete existing tests).
The breakage should need something specific to manifest: a particular interleaving, a fault at a particular point, a multi-step sequence of operations, an unusual-but-valid input, or two cooperating code sites that each look fine alone. It must violate the property as stated for inputs inside the stated scope (not merely change behaviour on inputs the statement does not speak about). Keep the diff small (ideally under 30 changed lines) and confined to non-test .go files.

Also write a DEMONSTRATION: a small Go test file or program (put it under {wt}/seeddemo/, e.g. seeddemo/demo_test.go in package seeddemo importing github.com/tsawler/tabula/... ; it may build its input documents in code) that FAILS with your change applied and PASSES on the unchanged code. Verify both directions yourself (do NOT use git stash or git commit — the git store is shared with other engineers; save your change with `git diff -- . ":!seeddemo" > {od}/patch.diff`, revert with `git checkout -- .`, re-apply with `git apply {od}/patch.diff`), running it with: go test -vet=off -count=1 ./seeddemo/

DELIVERABLES (all three required):
  1. {od}/patch.diff   — `git diff` of your change to the library only (NOT including seeddemo/)
  2. {od}/demo/        — a copy of your seeddemo directory
  3. {od}/meta.json    — {{"property": "{pid}", "summary": "<what the change does>", "needs": "<what it needs in order to manifest>", "files": ["<changed files>"], "demo_cmd": "go test -vet=off -count=1 ./seeddemo/", "verified": "<what you ran and saw: demo fails with patch, passes without; full suite green with patch>"}}
Leave the worktree with your change applied and seeddemo/ present. Final answer: a 5-line summary.
"""
    open(f"{out}/prompt-{pid}.txt", "w").write(t)
print("wrote", len(props), "prompts to", out)
