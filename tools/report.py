#!/usr/bin/env python3
"""Prints markdown tables for DESIGN.md §11: fixed defects, open findings, seeded changes, dev mutants."""
import json,glob,os,re,subprocess
def esc(x): return str(x).replace("|","\\|").replace("\n"," ")
V='/verif'
fs=[]
for p in [V+'/known_findings.json']+sorted(glob.glob(V+'/known_findings.d/*.json')):
    fs+=json.load(open(p))['findings']
fs.sort(key=lambda f:(f['property'],f['status']!='open',f['id']))
print("### 11.2 Genuine defects repaired (`fix:` commits in /repo)\n")
print("| prop | id | commit | what failed |\n|---|---|---|---|")
for f in fs:
    if f['status']=='fixed':
        w=esc(re.sub(r'^fixed: property=\S+ \S+ ','',f['what']))
        print(f"| {f['property']} | {f['id']} | {f.get('commit','')} | {w[:260]} |")
print("\n### 11.3 Open known findings\n")
print("| prop | id | trigger (counterfactual) | what fails |\n|---|---|---|---|")
for f in fs:
    if f['status']=='open':
        print(f"| {f['property']} | {f['id']} | {esc(f.get('trigger',''))[:220]} | {esc(f['what'])[:300]} |")
print("\n### 11.4 Seeded changes from independent sub-agents (`/verif/seeded/`)\n")
print("| id | property | what the change does | needs | caught by |\n|---|---|---|---|---|")
for d in sorted(glob.glob(V+'/seeded/*/meta.json')):
    m=json.load(open(d)); c=m.get('confirmed_by_lead',{})
    print(f"| {os.path.basename(os.path.dirname(d))} | {m.get('property')} | {esc(m.get('summary',''))[:230]} | {esc(m.get('needs',''))[:200]} | `./check {m.get('property')} quick`: {c.get('check_verdict')} {m.get('lead_note','')} |")
print("\n### 11.5 Development mutants (`/verif/mutants/*.patch`, all test-surviving, all caught by the named property's quick check)\n")
by={}
for p in sorted(glob.glob(V+'/mutants/*.patch')):
    b=os.path.basename(p)[:-6]; by.setdefault(b[:3],[]).append(b[4:])
for k in sorted(by): print(f"* **{k}**: "+", ".join(by[k]))
