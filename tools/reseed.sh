#!/usr/bin/env bash
# tools/reseed.sh [tier] [ids...] : regression over the kept seeded changes — apply each
# /verif/seeded/<id>/patch.diff to a scratch worktree of /repo HEAD and run the owning check
# against it (VERIF_OUT scratch, so evidence is not touched). Prints one line per change:
# CAUGHT / MISSED / NOAPPLY (patch no longer applies to HEAD) / NOBUILD.
set -u
tier="${1:-quick}"; shift || true
export GOFLAGS=-mod=mod GOPROXY=off GOSUMDB=off GOTOOLCHAIN=local
ids=("$@"); [ ${#ids[@]} -gt 0 ] || ids=($(ls /verif/seeded))
one() {
  id="$1"; tier="$2"; d="/verif/seeded/$id"
  prop="${id:0:3}"
  cp_=$(python3 -c "
import json,re,sys
m=json.load(open('$d/meta.json'))
v=m.get('confirmed_by_lead',{}).get('check_verdict','')
g=re.search(r'CAUGHT by (C\d\d)',v)
print(g.group(1) if g else '$prop')")
  wt="$(mktemp -d /tmp/rs.XXXXXX)"; rmdir "$wt"
  git -C /repo worktree add -q --detach "$wt" HEAD || { echo "$id WORKTREE-FAIL"; return; }
  res=""
  if ! git -C "$wt" apply "$d/patch.diff" 2>/dev/null && ! git -C "$wt" apply --3way "$d/patch.diff" >/dev/null 2>&1; then res="NOAPPLY"
  elif ! (cd "$wt" && go build ./... >/dev/null 2>&1); then res="NOBUILD"
  else
    mkdir -p "$wt.out"
    out="$(cd /verif && VERIF_OUT="$wt.out" VERIF_REPO="$wt" ./check "$cp_" "$tier" 2>&1)"; rc=$?
    if [ $rc = 1 ]; then res="CAUGHT by $cp_"; else res="MISSED by $cp_ (rc=$rc)"; fi
  fi
  echo "$id $res"
  git -C /repo worktree remove --force "$wt" >/dev/null 2>&1; rm -rf "$wt" "$wt.out"
}
export -f one
printf '%s\n' "${ids[@]}" | xargs -P ${RESEED_P:-4} -I{} bash -c "one {} $tier"
git -C /repo worktree prune
