#!/usr/bin/env bash
# tools/sweep.sh "<seeds>" <tier> [props…] : run checks at several seeds from fresh processes; summary on stdout.
# Evidence/replays go to a scratch dir (VERIF_OUT) so the committed evidence is not disturbed.
seeds="${1:-1 2 3}"; tier="${2:-quick}"; shift 2 2>/dev/null
props="$*"; [ -z "$props" ] && props="$(cat "$(dirname "$0")/ready.txt")"
cd "$(dirname "$0")/.."
out="$(mktemp -d /tmp/sweep.XXXXXX)"; export VERIF_OUT="$out"
bad=0
for p in $props; do for s in $seeds; do
  o="$(VERIF_SEED=$s ./check $p $tier 2>&1)"; rc=$?
  line="$(echo "$o" | grep -E "^$p " | tail -1)"
  echo "rc=$rc $line"
  if [ $rc != 0 ]; then bad=$((bad+1)); echo "$o" | grep -E "class|what:|INCONCL|BUILD" | head -6 | cut -c1-300; fi
done; done
echo "SWEEP DONE bad=$bad (out: $out)"
