#!/usr/bin/env python3
import subprocess,re
rep=subprocess.check_output(['python3','/verif/tools/report.py']).decode()
p='/verif/DESIGN.md'; s=open(p).read()
s=re.sub(r'<!-- REPORT:BEGIN -->.*<!-- REPORT:END -->','<!-- REPORT:BEGIN -->\n'+rep.replace('\\','\\\\')+'\n<!-- REPORT:END -->',s,flags=re.S)
open(p,'w').write(s)
