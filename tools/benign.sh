#!/usr/bin/env bash
# tools/benign.sh <id> [tier] [props...] : apply a property-preserving change
# ($BENSRC/<Cnn>/patch.diff when BENSRC is set, else /verif/benign/<id>/patch.diff) to a scratch
# worktree of /repo HEAD, confirm build + repo suite, and run EVERY check against it.
# Expected: all silent. Prints one line per check that alarms (ALARM Cmm ...) and a summary.
set -u
id="$1"; tier="${2:-quick}"; shift; shift || true
export GOFLAGS=-mod=mod GOPROXY=off GOSUMDB=off GOTOOLCHAIN=local
prop="${id:0:3}"
if [ -n "${BENSRC:-}" ]; then src="$BENSRC/$prop"; else src="/verif/benign/$id"; fi
[ -f "$src/patch.diff" ] || { echo "no patch in $src"; exit 3; }
props=("$@"); [ ${#props[@]} -gt 0 ] || props=($(seq -f 'C%02g' 1 20))
wt="$(mktemp -d /tmp/bn.XXXXXX)"; rmdir "$wt"
git -C /repo worktree add -q --detach "$wt" HEAD || exit 3
cleanup() { git -C /repo worktree remove --force "$wt" >/dev/null 2>&1; rm -rf "$wt" "$wt".out*; }
trap cleanup EXIT
git -C "$wt" apply "$src/patch.diff" || { echo "$id PATCH-DOES-NOT-APPLY"; exit 3; }
(cd "$wt" && go build ./...) || { echo "$id DOES-NOT-BUILD"; exit 3; }
suite="green"
if [ -z "${SKIPSUITE:-}" ]; then (cd "$wt" && go test -vet=off -count=1 ./... 2>&1 | grep -E "^(FAIL|---|panic)" | head -3 | grep -q .) && suite="RED"; fi
one() { p="$1"; o="$2.out.$p"; mkdir -p "$o"
  out="$(cd /verif && VERIF_OUT="$o" VERIF_REPO="$2" ./check "$p" "$3" 2>&1)"; rc=$?
  if [ $rc != 0 ]; then echo "ALARM $p rc=$rc: $(echo "$out" | grep -E 'what:' | head -1 | cut -c1-400)"; fi; }
export -f one
alarms="$(printf '%s\n' "${props[@]}" | xargs -P 4 -I{} bash -c "one {} $wt $tier")"
n=$(echo -n "$alarms" | grep -c ALARM)
echo "benign $id: repo suite with patch=$suite, checks run=${#props[@]} tier=$tier, alarms=$n"
[ -n "$alarms" ] && echo "$alarms"
if [ -n "${BENSRC:-}" ]; then
  # file it under /verif/benign/<id>/ (patch, demonstration, meta + what the lead saw)
  mkdir -p "/verif/benign/$id"; cp "$src/patch.diff" "/verif/benign/$id/patch.diff"
  rm -rf "/verif/benign/$id/demo"; [ -d "$src/demo" ] && cp -r "$src/demo" "/verif/benign/$id/demo"
  python3 - "$src/meta.json" "/verif/benign/$id/meta.json" "$suite" "$n" "$tier" "${#props[@]}" "$(git -C /repo log --format=%h -n1)" "$alarms" <<'PY'
import json,sys
src,dst,suite,n,tier,nprops,head,alarms=sys.argv[1:]
try: m=json.load(open(src))
except Exception: m={}
try:
    old=json.load(open(dst))
    if 'lead_note' in old: m['lead_note']=old['lead_note']
except Exception: pass
m['confirmed_by_lead']={"repo_head":head,"repo_suite_with_patch":suite,"checks_run":int(nprops),"tier":tier,"alarms":int(n),"alarm_lines":[l[:300] for l in alarms.splitlines() if l.strip()],
  "ran":"tools/benign.sh: scratch worktree of /repo HEAD, git apply patch.diff, go test ./..., VERIF_REPO=<worktree> ./check Cnn "+tier+" for every property"}
json.dump(m,open(dst,'w'),indent=1,ensure_ascii=False)
PY
fi
exit 0
