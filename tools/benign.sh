#!/usr/bin/env bash
# tools/benign.sh <id> [tier] [props...] : apply a property-preserving change
# ($BENSRC/<Cnn>/patch.diff when BENSRC is set, else /verif/benign/<id>/patch.diff) to a scratch
# worktree of /repo HEAD, confirm build + repo suite, and run EVERY check against it.
# Expected: all silent. Prints one line per check that alarms (ALARM Cmm ...) and a summary.
set -u
id="$1"; tier="${2:-quick}"; shift; shift || true
export GOFLAGS=-mod=mod GOPROXY=off GOSUMDB=off GOTOOLCHAIN=local
prop="${id:0:3}"
if [ -n "${BENSRC:-}" ]; then src="$BENSRC/$prop"; else src="/verif/benign/$id"; fi
[ -f "$src/patch.diff" ] || { echo "no patch in $src"; exit 3; }
props=("$@"); [ ${#props[@]} -gt 0 ] || props=($(seq -f 'C%02g' 1 20))
wt="$(mktemp -d /tmp/bn.XXXXXX)"; rmdir "$wt"
git -C /repo worktree add -q --detach "$wt" HEAD || exit 3
cleanup() { git -C /repo worktree remove --force "$wt" >/dev/null 2>&1; rm -rf "$wt" "$wt".out*; }
trap cleanup EXIT
git -C "$wt" apply "$src/patch.diff" || { echo "$id PATCH-DOES-NOT-APPLY"; exit 3; }
(cd "$wt" && go build ./...) || { echo "$id DOES-NOT-BUILD"; exit 3; }
suite="green"
if [ -z "${SKIPSUITE:-}" ]; then (cd "$wt" && go test -vet=off -count=1 ./... 2>&1 | grep -E "^(FAIL|---|panic)" | head -3 | grep -q .) && suite="RED"; fi
one() { p="$1"; o="$2.out.$p"; mkdir -p "$o"
  out="$(cd /verif && VERIF_OUT="$o" VERIF_REPO="$2" ./check "$p" "$3" 2>&1)"; rc=$?
  if [ $rc != 0 ]; then echo "ALARM $p rc=$rc: $(echo "$out" | grep -E 'what:' | head -1 | cut -c1-400)"; fi; }
export -f one
alarms="$(printf '%s\n' "${props[@]}" | xargs -P 4 -I{} bash -c "one {} $wt $tier")"
n=$(echo -n "$alarms" | grep -c ALARM)
echo "benign $id: repo suite with patch=$suite, checks run=${#props[@]} tier=$tier, alarms=$n"
[ -n "$alarms" ] && echo "$alarms"
exit 0
