#!/usr/bin/env python3
"""tools/benign_prompts.py <round-no> <outdir> : write one prompt per property for a round of
independently written PROPERTY-PRESERVING changes (fresh sub-agent, own worktree
/tmp/ben<round>-Cnn, only the property text). They test the other half of the contract: a
check must stay silent on code where the property holds, also after a legitimate change."""
import json, sys, os, glob
rnd = int(sys.argv[1]); out = sys.argv[2]
FLAV = [
 "retune a heuristic, threshold, tolerance, default or tie-break that the property does not pin down (grouping, spacing, ordering among things the statement leaves unordered, whitespace, rounding), so that outputs differ for some inputs while everything the statement demands still holds.",
 "a refactor or optimisation that changes HOW the work is done (caching done correctly, a different but equivalent algorithm, lazily instead of eagerly, different internal order of independent steps, buffer reuse that is actually safe, extra goroutines that are correctly synchronised) and changes something observable that the statement does not speak about (allocation pattern, order of internal calls, timing, which of two equivalent representations is returned).",
 "change what happens on inputs OUTSIDE the stated scope or on invalid input (a different error value/message/type, rejecting earlier or later, recovering more or less from a damaged input, a new validation), without changing anything for inputs inside the scope.",
 "add a small feature: a new option, field, method, metadata key or output decoration whose default keeps everything the statement demands (the statement's guarantees must still hold with the feature at its default AND, if the statement quantifies over options, with it switched on).",
]
props = [json.loads(l) for l in open('/verif/properties.jsonl')]
os.makedirs(out, exist_ok=True)
for i, p in enumerate(props):
    pid = p['id']; wt = f"/tmp/ben{rnd}-{pid}"; od = f"{out}/{pid}"
    os.makedirs(od, exist_ok=True)
    taken = []
    for d in sorted(glob.glob(f"/verif/benign/{pid}*")):
        try: taken.append(json.load(open(d + "/meta.json"))["summary"])
        except Exception: pass
    flav = FLAV[(i + rnd) % 4]
    files = ", ".join(p['anchors']['files'])
    t = f"""You are a software engineer testing a hidden verification suite for FALSE ALARMS. You work ONLY inside the git worktree {wt} (a checkout of the Go library tsawler/tabula: pure-Go text extraction from PDF, DOCX, ODT, XLSX, PPTX, EPUB, HTML). Do not look at or touch /verif or /repo or any other directory; you have no knowledge of what the verification suite checks beyond the property text below.

PROPERTY {pid}: {p['title']}
Statement: {p['statement']}
Scope: {p['quantifier']['text']}
Relevant source files: {files}

IDEAS ALREADY TAKEN by other engineers (choose something different):
""" + "\n".join("  - " + s for s in taken) + f"""

TASK: produce ONE realistic, LEGITIMATE source change to the library in {wt} — the kind of commit a maintainer would merge — that visibly CHANGES behaviour of the code in or near the relevant source files, and yet PRESERVES the property exactly as stated, for every input in the stated scope. A verification suite that demands more than the statement says (exact whitespace, a particular grouping, a particular error text, a particular internal order, byte-identical output to the old version …) would wrongly alarm on your change; that is what we want to find out. Go close to the boundary of what the statement allows, but stay inside it: if you are not sure that a behaviour is allowed by the statement, do not change it.

REQUIRED FLAVOUR: {flav}

Constraints:
  (a) the module still compiles (go build ./...), and
  (b) the library's existing test suite still passes, unedited:  cd {wt} && export GOFLAGS=-mod=mod GOPROXY=off GOSUMDB=off GOTOOLCHAIN=local && go test -vet=off -count=1 ./...   (no network; no new dependencies; do not edit or delete existing tests).
  (c) keep the diff small (ideally under 40 changed lines), non-test .go files only.
  (d) the change must not be a no-op: write a DEMONSTRATION under {wt}/seeddemo/ (package seeddemo, a Go test building its inputs in code) that shows an observable difference: it PASSES with your change and FAILS on the unchanged code (or the other way round — say which). Verify both directions (do NOT use git stash or git commit — the git store is shared; save your change with `git diff -- . ":!seeddemo" > {od}/patch.diff`, revert with `git checkout -- .`, re-apply with `git apply {od}/patch.diff`), running: go test -vet=off -count=1 ./seeddemo/

DELIVERABLES (all three required):
  1. {od}/patch.diff   — `git diff` of your change to the library only (NOT including seeddemo/)
  2. {od}/demo/        — a copy of your seeddemo directory
  3. {od}/meta.json    — {{"property": "{pid}", "summary": "<what the change does and what observable behaviour differs>", "why_property_holds": "<a careful argument, clause by clause of the statement, that the property still holds for every input in scope>", "files": ["<changed files>"], "demo_cmd": "go test -vet=off -count=1 ./seeddemo/", "verified": "<what you ran and saw>"}}
Leave the worktree with your change applied and seeddemo/ present. Final answer: a 5-line summary.
"""
    open(f"{out}/prompt-{pid}.txt", "w").write(t)
print("wrote", len(props), "prompts to", out)
